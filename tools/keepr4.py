#!/usr/bin/env python3
"""Copy the verified, caught, non-duplicate round-4 (file-focused) seeded changes into /verif/seeded/R3-*/ with completed meta.json.
First-run results come from tools/mutround.py (final3*.json); for the changes that escaped the first run the results
of the re-runs done after the checks were strengthened are recorded here (each was run with tools/mutant.py check)."""
import json, os, shutil
ROOT = os.path.dirname(os.path.dirname(os.path.abspath(__file__)))
res = {}
for f in ("/tmp/mut4/final4.json", "/tmp/mut4/none.json"):
    if os.path.exists(f):
        res.update(json.load(open(f)))
KEEP = {
 "F01-m1": "mustjson-pooled-buffer", "F01-m2": "jsonrespond-unescapes-literal-escapes",
 "F02-m1": "batch-content-id-single-bracket-panics", "F02-m2": "batch-inner-length-beyond-body-panics", "F02-m3": "batch-inner-body-only-from-first-buffer",
 "F03-m1": "unbounded-range-ends-validation", "F03-m2": "open-open-empty-range-rejected", "F03-m3": "range-inversion-compared-over-common-length",
 "F04-m1": "scrubbed-name-unescaped", "F04-m2": "client-size-trusted", "F04-m3": "octet-stream-content-type-wiped",
 "F05-m1": "short-api-path-pattern-unanchored", "F05-m2": "object-name-unescaped-twice", "F05-m3": "public-url-trailing-slash-trimmed",
 "F06-m1": "one-byte-content-range-rejected", "F06-m2": "gzip-skipped-without-content-length", "F06-m3": "zero-size-finalisation-rejected",
 "F07-m1": "multipart-part-limited-to-compressed-length", "F07-m3": "multipart-name-unescaped",
 "F08-m1": "leveldb-ascend-less-than-inclusive", "F08-m3": "only-errclosed-tolerated-after-clear",
 "F09-m1": "page-full-checked-before-prefix-consumed", "F09-m2": "name-that-is-prefix-of-prefix-listed",
 "F10-m1": "create-persists-meta-before-destroying-leftover", "F10-m3": "deletetablemeta-path-for-trailing-slash",
}
RERUN = {
 "F01-m1": {"C20": 1}, "F01-m2": {"C02": 1}, "F02-m2": {"C20": 1}, "F02-m3": {"C20": 1}, "F03-m2": {"C03": 1}, "F05-m3": {"C02": 1},
 "F06-m2": {"C02": 1}, "F07-m1": {"C02": 1}, "F10-m3": {"C08": 1},
}
kept = []
for name, slug in sorted(KEEP.items()):
    r = res[name]
    assert r["verified"] == "VERIFIED", name
    checks = {c: dict(exit=v["rc"].split("rc=")[-1], violations_reported=v["violations"]) for c, v in r["checks"].items()}
    for c, e in RERUN.get(name, {}).items():
        first = checks.get(c, {}).get("exit")
        checks[c] = dict(exit=str(e), note="re-run after the check was strengthened" + (" (first run: escaped)" if first == "0" else " (neighbouring property, not run at first)"))
    caught = sorted(c for c, v in checks.items() if v["exit"] == "1")
    assert caught, name
    dst = os.path.join(ROOT, "seeded", "R4-%s-%s" % (name, slug))
    os.makedirs(dst, exist_ok=True)
    for f in os.listdir(r["src"]):
        shutil.copy(os.path.join(r["src"], f), os.path.join(dst, f))
    meta = json.load(open(os.path.join(dst, "meta.json")))
    meta["round"] = 4
    meta["what_it_needs"] = meta.get("needs", "")
    meta["demo_location"] = (meta.get("demo_location", "") or "").split()[0]
    meta["verified_by_me"] = dict(how="tools/mutant.py verify: scratch worktree of /repo HEAD; demo passes without the patch, fails with it; the touched module's unedited test suite passes with the patch", result="VERIFIED")
    meta["checks_run"] = {c: dict(cmd="VERIF_REPO=<patched worktree> ./run %s quick" % c, **v) for c, v in checks.items()}
    meta["caught_by"] = caught
    json.dump(meta, open(os.path.join(dst, "meta.json"), "w"), indent=1)
    kept.append((os.path.basename(dst), meta["property"], caught, any("escaped" in v.get("note", "") for v in checks.values()), meta["summary"]))
rows = ["| %s | %s | %s%s | %s |" % (n, p, ", ".join(c), " (after strengthening)" if e else "", s[:110].replace("|", "/").replace("\n", " ")) for n, p, c, e, s in kept]
open("/tmp/mut4/r4table.md", "w").write("\n".join(rows) + "\n")
print(len(kept), "kept")
