#!/usr/bin/env python3
"""Verify + check the round-2 mutants found under /tmp/mut/r2-*/mutout/m*; results -> /tmp/mut/final2.json"""
import glob, json, os, subprocess, sys
ROOT = os.path.dirname(os.path.dirname(os.path.abspath(__file__)))
res = json.load(open("/tmp/mut/final2.json")) if os.path.exists("/tmp/mut/final2.json") else {}
extra = {"C12": ["C06"], "C17": ["C05"]}
for d in sorted(glob.glob("/tmp/mut/r2-*/mutout/m*")):
    prop = d.split("/r2-")[1].split("/")[0]
    name = "R2-%s-%s" % (prop, os.path.basename(d))
    if name in res and not (sys.argv[1:] and (name in sys.argv[1:] or prop in sys.argv[1:])):
        continue
    if sys.argv[1:] and not (name in sys.argv[1:] or prop in sys.argv[1:]):
        continue
    # demo_location hygiene
    mp = os.path.join(d, "meta.json")
    v = subprocess.run(["python3", ROOT + "/tools/mutant.py", "verify", d], stdout=subprocess.PIPE, stderr=subprocess.STDOUT, text=True).stdout
    verified = v.strip().splitlines()[-1] if v.strip() else "?"
    caught = {}
    for c in [prop] + extra.get(prop, []):
        out = subprocess.run(["python3", ROOT + "/tools/mutant.py", "check", d, c], stdout=subprocess.PIPE, stderr=subprocess.STDOUT, text=True, errors="replace").stdout
        rc = [l for l in out.splitlines() if l.startswith("== ")]
        viol = [l for l in out.splitlines() if l.startswith("VIOLATION")]
        caught[c] = dict(rc=rc[-1] if rc else "?", violations=len(viol))
    res[name] = dict(src=d, property=prop, verified=verified, checks=caught)
    json.dump(res, open("/tmp/mut/final2.json", "w"), indent=1)
    print(name, verified, {c: caught[c]["rc"][-4:] for c in caught}, flush=True)
