#!/usr/bin/env python3
"""Copy the verified, caught, non-duplicate round-2 seeded changes into /verif/seeded/R2-*/ with completed meta.json.
Re-runs the checks for the changes that escaped the first run (after the checks were strengthened)."""
import json, os, re, shutil, subprocess, sys
ROOT = os.path.dirname(os.path.dirname(os.path.abspath(__file__)))
res = json.load(open("/tmp/mut/final2.json"))
DROP = {"R2-C01-m2": "same patch as C01-m2", "R2-C04-m2": "same patch as C04-m2", "R2-C07-m1": "same patch as C07-m1", "R2-C13-m1": "same patch as C13-m1",
        "R2-C16-m1": "same patch as C16-m1", "R2-C18-m2": "same patch as C03-m1 (caught by C03)", "R2-C20-m1": "same patch as C20-m1", "R2-C15-m1": "near-duplicate of C15-m1",
        "R2-C07-m2": "same patch as R2-C04-m1 (kept there; caught by C04, C10 and C07)", "R2-C18-m1": "not observable over gRPC (Send serialises before the buffer is reused)"}
RECHECK = {"R2-C02-m1": ["C02"], "R2-C04-m1": ["C04", "C10", "C07"], "R2-C09-m1": ["C09", "C02"], "R2-C12-m1": ["C12"], "R2-C17-m2": ["C17"]}
SLUG = {"R2-C01-m1": "delete-from-column-returns-early", "R2-C02-m1": "delete-of-prefix-name-removes-subtree", "R2-C02-m2": "resumable-resend-from-zero-not-truncated",
        "R2-C03-m1": "emptied-row-counts-against-limit", "R2-C03-m2": "merge-ranges", "R2-C04-m1": "patch-conditions-judged-after-body-merge", "R2-C05-m1": "filter", "R2-C05-m2": "rowoffset-stops-at-family-boundary",
        "R2-C06-m1": "mutaterows-row-cache", "R2-C06-m2": "predicateless-checkandmutate-under-read-lock", "R2-C08-m1": "open-ignores-nuke", "R2-C08-m2": "create-does-not-purge",
        "R2-C09-m1": "only-immediate-parent-dir-removed", "R2-C09-m2": "filestore-add-keeps-metageneration", "R2-C10-m1": "memstore-copy-inherits-metageneration", "R2-C10-m2": "multipart-headers-from-request-object",
        "R2-C11-m1": "delimiter-right-after-prefix", "R2-C11-m2": "cursor-not-advanced-over-single-object-prefix", "R2-C12-m1": "predicate-skipped-for-empty-row", "R2-C12-m2": "condition-emptiness-on-input-row",
        "R2-C13-m2": "increment-buffer-shared-across-rules", "R2-C14-m1": "dropped-family-stays-in-validation-set", "R2-C14-m2": "listtables-string-prefix", "R2-C15-m2": "compose-erases-source-md5",
        "R2-C16-m2": "gc-refetch-only-first-row-after-window", "R2-C17-m1": "prefix-drop-nil-successor-btree", "R2-C17-m2": "name-limits-only-on-disk-engine", "R2-C19-m1": "cancel-after-acquire-keeps-key",
        "R2-C19-m2": "cancelled-fast-path-leaks-reference", "R2-C20-m2": "gzip-object-content-length"}
out = {}
for name, r in sorted(res.items()):
    if name in DROP:
        out[name] = dict(kept=False, why=DROP[name])
        continue
    src = r["src"]
    checks = {c: dict(exit=v["rc"].split("rc=")[-1], violations_reported=v["violations"]) for c, v in r["checks"].items()}
    if name in RECHECK:
        o = subprocess.run(["python3", ROOT + "/tools/mutant.py", "check", src] + RECHECK[name] + ["quick"], stdout=subprocess.PIPE, stderr=subprocess.STDOUT, text=True, errors="replace").stdout
        cur = None
        for l in o.splitlines():
            m = re.match(r"== (C\d\d) quick on mutant: rc=(\d+)", l)
            if m:
                cur = m.group(1)
                checks[cur] = dict(exit=m.group(2), violations_reported=0, note="re-run after the check was strengthened (first run: escaped)")
            elif l.startswith("VIOLATION") and cur:
                checks[cur]["violations_reported"] += 1
    caught = sorted(c for c, v in checks.items() if v["exit"] == "1")
    if r["verified"] != "VERIFIED" or not caught:
        out[name] = dict(kept=False, why="verified=%s caught=%s" % (r["verified"], caught))
        continue
    dst = os.path.join(ROOT, "seeded", name + "-" + SLUG.get(name, "x"))
    os.makedirs(dst, exist_ok=True)
    for f in os.listdir(src):
        shutil.copy(os.path.join(src, f), os.path.join(dst, f))
    meta = json.load(open(os.path.join(dst, "meta.json")))
    meta["round"] = 2
    meta["what_it_needs"] = meta.get("needs", "")
    meta["demo_location"] = (meta.get("demo_location", "") or "").split()[0]
    meta["verified_by_me"] = dict(how="tools/mutant.py verify: scratch worktree of /repo HEAD; demo passes without the patch, fails with it; the touched module's unedited test suite passes with the patch", result="VERIFIED")
    meta["checks_run"] = {c: dict(cmd="VERIF_REPO=<patched worktree> ./run %s quick" % c, **v) for c, v in checks.items()}
    meta["caught_by"] = caught
    json.dump(meta, open(os.path.join(dst, "meta.json"), "w"), indent=1)
    out[name] = dict(kept=True, dir=os.path.basename(dst), caught_by=caught)
    print(name, caught, flush=True)
json.dump(out, open("/tmp/mut/kept2.json", "w"), indent=1)
