#!/usr/bin/env python3
"""Writes MANIFEST.json from tools/units.py (single source of truth)."""
import json, os, subprocess, sys
ROOT = os.path.dirname(os.path.dirname(os.path.abspath(__file__)))
sys.path.insert(0, os.path.join(ROOT, "tools"))
from units import PROPS, NOT_APPLICABLE, HOOK_COMMITS

BASE = json.load(open("/root/.vp/BASELINE.json"))["cmd"] if os.path.exists("/root/.vp/BASELINE.json") else ""
checks = []
for pid in sorted(PROPS):
    p = PROPS[pid]
    checks.append(dict(
        property_id=pid,
        quick_cmd="./run %s quick" % pid,
        thorough_cmd="./run %s thorough" % pid,
        evidence_file="/verif/evidence/%s.json" % pid,
        replay_cmd_template="./run --replay {path}",
        engine="go test binaries (pgregory.net/rapid v1.3.0 + own enumerators) driven by tools/vcheck.py",
        level_claimed=dict(category=p["level"], text=p["text"], design_ref=p.get("design_ref", "DESIGN.md §3 " + pid)),
        level_note=p["note"],
        technique=p["technique"],
    ))
m = dict(
    version=1,
    setup_cmd="./run --setup",
    hooks=dict(guard="verif (Go build tag)",
               enable="go test -c -tags verif (the driver builds every check binary from /repo's working tree through replace directives in /verif/go.mod)",
               baseline_off_cmd=BASE,
               source_commits=HOOK_COMMITS, add_only=True),
    engines=[dict(name="vcheck", path="/verif/tools/vcheck.py", serves_properties=sorted(PROPS),
                  kind_free_text="property-based testing / fuzzing driver: builds Go test binaries against /repo, replays saved cases, runs sharded rapid searches and exhaustive enumerations, merges evidence")],
    checks=checks,
    notes="Every check: replay tier (saved shrunk cases, library-free) then generated search. Exit 2 = inconclusive (build failure, timeout). See DESIGN.md.",
    not_applicable=NOT_APPLICABLE,
)
json.dump(m, open(os.path.join(ROOT, "MANIFEST.json"), "w"), indent=1)
print("MANIFEST.json written with %d checks" % len(checks))
