#!/bin/sh
# usage: tools/sweep.sh <tier> <seed>...   -> runs every property's check at the given seeds, one line per run
TIER=$1; shift
for seed in "$@"; do
  for p in C01 C02 C03 C04 C05 C06 C07 C08 C09 C10 C11 C12 C13 C14 C15 C16 C17 C18 C19 C20; do
    out=$(VERIF_SEED=$seed ./run $p $TIER 2>&1 | grep -a -E "^OK|^VIOLATION|^INCONCLUSIVE|^KNOWN" | head -3 | cut -c1-200 | tr '\n' ' ')
    echo "seed=$seed $p $out"
  done
done
