#!/bin/sh
# usage: mutbatch.sh <Cxx> <mutdir>...   -> verify each mutant and run the quick check against it; log to /tmp/mut/results.txt
P=$1; shift
for d in "$@"; do
  v=$(python3 /verif/tools/mutant.py verify $d 2>&1 | tail -1)
  c=$(python3 /verif/tools/mutant.py check $d $P 2>&1 | grep -E "^== |^VIOLATION|^INCONCLUSIVE" | head -3 | tr '\n' ' ')
  echo "$(date +%H:%M) $P $d :: $v :: $c" >> /tmp/mut/results.txt
done
