"""Which Go test functions decide which property, and their budgets (case counts, not time)."""

A_BT = ["the reference model / evaluator written from the Bigtable API documentation is right",
        "direct calls to the service object (with a wire round-trip of every request and response) behave like gRPC calls",
        "go toolchain, rapid v1.3.0"]
A_GCS = ["the reference object model written from the GCS JSON API documentation is right",
         "driving the registered http mux in-process (httptest recorder) behaves like a network client",
         "go toolchain, rapid v1.3.0"]

HOOK_COMMITS = ["65a7170"]

ALL = ["C%02d" % i for i in range(1, 21)]

PROPS = {
    "C01": dict(level="exploration", assumptions=A_BT,
        technique="model-based property testing (rapid): generated mutation programs vs. reference map model, read-back after every step, shrinking to a replay file",
        text="Random programs of MutateRow/MutateRows over adversarial keys/timestamps/clock values on all three engines are compared with an independent reference model after every step (single-row reads of every touched key, periodic full scans, chunk-stream decoder). Exploration: finds counterexamples, does not prove absence.",
        note="Trusted: the reference model (internal/bt/model.go), the chunk decoder, direct service calls with wire round-trip standing in for gRPC.",
        units=[dict(pkg="bt", test="TestC01", quick=9000, thorough=240000)]),
    "C13": dict(level="exploration", assumptions=A_BT,
        technique="model-based property testing (rapid): generated prior states + ReadModifyWriteRow rule lists vs. arithmetic/append model; response and read-back compared",
        text="Random histories of writes and ReadModifyWriteRow requests (repeated columns, extreme amounts, future cells, non-8-byte values, drawn clock, 3 engines) are compared with an independent model of the increment/append semantics: response cells, error/no-change on failing rules, and an unfiltered read-back after every step.",
        note="Trusted: ApplyRMW in internal/bt/model.go (two's-complement big-endian arithmetic, timestamp = max(server ms, newest)); an increment on an existing empty value is accepted either way (text is silent).",
        units=[dict(pkg="bt", test="TestC13", quick=9000, thorough=240000)]),
    "C03": dict(level="exploration", assumptions=A_BT,
        technique="bounded-exhaustive enumeration of RowSets over an adversarial key universe + rapid-generated tables/RowSets/limits, oracle = set-union definition and chunk-stream validity automaton",
        text="Every RowSet with up to two ranges and one key over the 7-key universe named by the property (406 808 sets, x3 engines; whole space in thorough, a seed-selected 1/16 in quick) is read from a 13-row table and compared with the rows the definition selects; random larger tables/RowSets/limits/filters (multi-message results) and SampleRowKeys are checked the same way; the decoder enforces chunk-stream well-formedness.",
        note="Trusted: membership by definition (bytes.Compare), the stream decoder. Empty ranges (start==end, one end open) are accepted as InvalidArgument or as contributing nothing. Empty keys/bounds are not generated.",
        units=[dict(pkg="bt", test="TestC03Enum", kind="enum", quick=1, thorough=1, shards_quick=4, shards_thorough=16),
               dict(pkg="bt", test="TestC03", quick=1600, thorough=40000)]),
    "C05": dict(level="exploration", assumptions=A_BT,
        technique="metamorphic property testing: grammar-generated filter trees + bounded-exhaustive leaf-basis compositions; oracle = independent filter evaluator (own regex matcher) applied to the emulator's unfiltered read",
        text="Filter trees from a grammar (all supported leaves at boundary/invalid arguments, chain/interleave/condition nesting, <=2 sample nodes) are run on generated multi-row/family/version tables on three engines; the filtered read must equal an independent evaluator's output on the emulator's own unfiltered read; invalid arguments that are reached must give InvalidArgument; every leaf alone and all depth-2 compositions of a 26-leaf basis (18 954 filters) are enumerated (thorough: all; quick: 1/8).",
        note="Trusted: EvalFilter/MatchFull (written from data.proto comments). Accepted either way: count 0; invalid node that no cell reaches; double labels and row limit/offset after an interleave over several families are treated as unspecified.",
        units=[dict(pkg="bt", test="TestC05Enum", kind="enum", quick=1, thorough=1, shards_quick=4, shards_thorough=16),
               dict(pkg="bt", test="TestC05", quick=4500, thorough=90000)]),
    "C12": dict(level="exploration", assumptions=A_BT,
        technique="model-based + metamorphic property testing (rapid): predicate evaluated by the independent filter evaluator, by the emulator's own ReadRows, and by predicate_matched; selected branch applied to the reference model",
        text="Random row histories and CheckAndMutateRow requests (predicate trees incl. ones that match but yield no cell or that error; empty/invalid mutation lists) on three engines: predicate_matched must equal the evaluator's 'yields >=1 cell' and the emulator's own filtered read; exactly the selected list is applied (model), everything else in the table is unchanged, failures leave the row untouched.",
        note="Trusted: filter evaluator and mutation model. An invalid mutation in the unselected branch may be rejected or ignored; unspecified predicates (double labels, limits after interleave over several families) only require a clean status.",
        units=[dict(pkg="bt", test="TestC12", quick=6000, thorough=150000)]),
    "C14": dict(level="exploration", assumptions=A_BT,
        technique="model-based stateful property testing (rapid): generated admin+data programs vs. registry model, all observers compared after every request",
        text="Random admin/data programs over several tables and parents on three engines; after every request ListTables, GetTable, a full scan and SampleRowKeys of every table are compared with a registry model (all-or-nothing ModifyColumnFamilies, family drop purges cells, DropRowRange by prefix incl. 0xff-terminated prefixes, NotFound after DeleteTable, empty table after re-create).",
        note="Trusted: registry/data model in internal/bt/model.go. Empty prefixes and modifications without a oneof are not generated.",
        units=[dict(pkg="bt", test="TestC14", quick=2400, thorough=60000)]),
    "C17": dict(level="exploration", assumptions=["direct service calls with a wire round-trip stand in for gRPC", "go toolchain, rapid v1.3.0"],
        technique="differential property testing (rapid): the same generated program on three storage engines, responses compared request by request",
        text="Random sequential admin/data programs (incl. scans that fail only on some rows, limits, drops/clears, re-created tables) run on three servers that differ only in the storage engine; every response must be identical, including rows streamed before a failing scan's error. No model is involved; a disagreement is itself the counterexample.",
        note="Sample filters and SampleRowKeys are excluded (process-global RNG). Family order inside a row is compared as streamed (engines share the row encoding).",
        units=[dict(pkg="bt", test="TestC17", quick=1500, thorough=40000)]),
}

NOT_APPLICABLE = [dict(property_id=p, reason="check not built yet in this session (work in progress; see DESIGN.md §8 build order)") for p in ALL if p not in PROPS]

