"""Which Go test functions decide which property, and their budgets (case counts, not time)."""

A_BT = ["the reference model / evaluator written from the Bigtable API documentation is right",
        "direct calls to the service object (with a wire round-trip of every request and response) behave like gRPC calls",
        "go toolchain, rapid v1.3.0"]
A_GCS = ["the reference object model written from the GCS JSON API documentation is right",
         "driving the registered http mux in-process (httptest recorder) behaves like a network client",
         "go toolchain, rapid v1.3.0"]

HOOK_COMMITS = ["65a7170"]

ALL = ["C%02d" % i for i in range(1, 21)]

PROPS = {
    "C01": dict(level="exploration", assumptions=A_BT,
        technique="model-based property testing (rapid): generated mutation programs vs. reference map model, read-back after every step, shrinking to a replay file",
        text="Random programs of MutateRow/MutateRows over adversarial keys/timestamps/clock values on all three engines are compared with an independent reference model after every step (single-row reads of every touched key, periodic full scans, chunk-stream decoder). Exploration: finds counterexamples, does not prove absence.",
        note="Trusted: the reference model (internal/bt/model.go), the chunk decoder, direct service calls with wire round-trip standing in for gRPC.",
        units=[dict(pkg="bt", test="TestC01", quick=9000, thorough=240000)]),
}

NOT_APPLICABLE = [dict(property_id=p, reason="check not built yet in this session (work in progress; see DESIGN.md §8 build order)") for p in ALL if p not in PROPS]

