#!/usr/bin/env python3
"""Verify + check a round of seeded changes.

  mutround.py <root> <out.json> [-j N] [Cxx ...]

<root>/<Cxx>/mutout/m<i>/ holds patch.diff, meta.json and the demonstration.
Properties are processed in parallel (N at a time), the changes of one property
one after the other (a property's evidence file and replay directory are saved
and restored around each run, so two runs of the same property must not overlap).
Results accumulate in <out.json>; entries already there are skipped.
"""
import glob, json, os, subprocess, sys, threading
ROOT = os.path.dirname(os.path.dirname(os.path.abspath(__file__)))
EXTRA = {"C12": ["C06"], "C17": ["C05"], "C18": ["C03", "C20"], "C09": ["C02"], "C07": ["C04"], "C16": ["C18"]}

args = sys.argv[1:]
root, outp = args[0], args[1]
j = 4
want = []
i = 2
while i < len(args):
    if args[i] == "-j":
        j = int(args[i + 1]); i += 2
    else:
        want.append(args[i]); i += 1
res = json.load(open(outp)) if os.path.exists(outp) else {}
lock = threading.Lock()


def one(d, prop, name):
    v = subprocess.run(["python3", ROOT + "/tools/mutant.py", "verify", d], stdout=subprocess.PIPE, stderr=subprocess.STDOUT, text=True, errors="replace").stdout
    verified = v.strip().splitlines()[-1] if v.strip() else "?"
    caught = {}
    if verified == "VERIFIED":
        for c in [prop] + EXTRA.get(prop, []):
            out = subprocess.run(["python3", ROOT + "/tools/mutant.py", "check", d, c], stdout=subprocess.PIPE, stderr=subprocess.STDOUT, text=True, errors="replace").stdout
            rc = [l for l in out.splitlines() if l.startswith("== ")]
            viol = [l for l in out.splitlines() if l.startswith("VIOLATION")]
            caught[c] = dict(rc=rc[-1] if rc else "?", violations=len(viol))
            if caught[c]["rc"].endswith("rc=1") and c == prop:
                break  # caught by its own property's check: no need for the neighbours
    with lock:
        res[name] = dict(src=d, property=prop, verified=verified, checks=caught, verify_tail=v[-1200:] if verified != "VERIFIED" else "")
        json.dump(res, open(outp, "w"), indent=1)
        print(name, verified, {c: caught[c]["rc"][-4:] for c in caught}, flush=True)


def prop_worker(group):
    for d in sorted(glob.glob(os.path.join(root, group, "mutout", "m*"))):
        name = "%s-%s" % (group, os.path.basename(d))
        if name in res:
            continue
        prop = group
        if not (len(group) == 3 and group[0] == "C"):
            # file-focused round: the property a change breaks is named in its meta.json
            try:
                prop = json.load(open(os.path.join(d, "meta.json")))["property"].strip()[:3]
            except Exception:
                prop = "C20"
        one(d, prop, name)


props = sorted(os.path.basename(p) for p in glob.glob(os.path.join(root, "???")) if os.path.isdir(p))
if want:
    props = [p for p in props if p in want]
sem = threading.Semaphore(j)
ths = []
for p in props:
    def run(p=p):
        with sem:
            prop_worker(p)
    t = threading.Thread(target=run)
    t.start()
    ths.append(t)
for t in ths:
    t.join()
