#!/usr/bin/env python3
"""Re-verify every seeded mutant against /repo HEAD and run its property's quick check; write /tmp/mut/final.json."""
import json, os, subprocess, sys, glob
ROOT = os.path.dirname(os.path.dirname(os.path.abspath(__file__)))
LIST = [  # (source dir, seeded name, property, checks to run)
 ("C01/mutout/m1","C01-m1-delete-range-end-inclusive","C01",["C01"]),
 ("C01/mutout/m2","C01-m2-mutaterows-partial-apply","C01",["C01"]),
 ("C02/mutout/m1","C02-m1-filestore-overwrite-without-truncate","C02",["C02"]),
 ("C02/mutout/m2","C02-m2-resumable-overlap-appended-twice","C02",["C02"]),
 ("C03/mutout/m1","C03-m1-merge-ranges-wrong-predecessor","C03",["C03"]),
 ("C03/mutout/m2","C03-m2-limit-per-range","C03",["C03"]),
 ("C04/mutout/m2","C04-m2-compose-source-condition-carried-over","C04",["C04"]),
 ("C05/mutout/m1","C05-m1-rowlimit-not-zeroed","C05",["C05"]),
 ("C05/mutout/m2","C05-m2-condition-predicate-on-shared-row","C05",["C05"]),
 ("C06/mutout/m1","C06-m1-mutaterows-reuses-failed-row","C06",["C06"]),
 ("C06/mutout/m2","C06-m2-checkandmutate-check-then-act","C06",["C06"]),
 ("C07/mutout/m1","C07-m1-copy-locks-wrong-bucket","C07",["C07"]),
 ("C07/mutout/m2","C07-m2-patch-validates-stale-snapshot","C07",["C07"]),
 ("C08/mutout/m1","C08-m1-update-only-modifycf-not-persisted","C08",["C08"]),
 ("C08/mutout/m2","C08-m2-temp-meta-file-loaded-as-table","C08",["C08"]),
 ("C09/mutout/m1","C09-m1-filestore-overwrite-without-truncate","C09",["C09"]),
 ("C09/mutout/m2","C09-m2-emptied-bucket-directory-removed","C09",["C09"]),
 ("C10/mutout/m1","C10-m1-patch-metageneration-from-body","C10",["C10"]),
 ("C10/mutout/m2","C10-m2-self-copy-keeps-generation","C10",["C10"]),
 ("C11/mutout/m1","C11-m1-object-equal-to-prefix-skipped","C11",["C11"]),
 ("C11/mutout/m2","C11-m2-multichar-delimiter-prefix-cut-short","C11",["C11"]),
 ("C12/mutout/m1","C12-m1-no-predicate-uses-row-presence","C12",["C12"]),
 ("C12/mutout/m2","C12-m2-predicate-under-read-lock","C12",["C06"]),
 ("C13/mutout/m1","C13-m1-rmw-ts-carried-across-rules","C13",["C13"]),
 ("C13/mutout/m2","C13-m2-increment-accepts-long-values","C13",["C13"]),
 ("C14/mutout/m1","C14-m1-droprowrange-successor-off-by-one","C14",["C14"]),
 ("C14/mutout/m2","C14-m2-family-drop-deletes-during-btree-iteration","C14",["C14","C17"]),
 ("C15/mutout/m1","C15-m1-compose-aliases-first-source","C15",["C15"]),
 ("C15/mutout/m2","C15-m2-copy-missing-source-onto-existing","C15",["C15"]),
 ("C16/mutout/m1","C16-m1-maxage-nanos-dropped","C16",["C16"]),
 ("C16/mutout/m2","C16-m2-gc-deferred-delete-loses-write","C16",["C16"]),
 ("C17/mutout/m2","C17-m2-leveldb-iteration-ignores-stop","C17",["C17","C05"]),
 ("C18/mutout/m1","C18-m1-scan-reads-live-row-nil-deref","C18",["C18"]),
 ("C18/mutout/m2","C18-m2-scan-keeps-lock-while-sending","C18",["C18"]),
 ("C19/mutout/m1","C19-m1-cancelled-lock-keeps-key","C19",["C19"]),
 ("C19/mutout/m2","C19-m2-cancelled-waiter-leaks-entry","C19",["C19"]),
 ("C20/mutout/m1","C20-m1-readrows-send-failure-runlock","C20",["C20"]),
 ("C20/mutout/m2","C20-m2-resumable-gap-slice-panic","C20",["C20"]),
]
only = sys.argv[1:]
res = json.load(open("/tmp/mut/final.json")) if os.path.exists("/tmp/mut/final.json") else {}
for src, name, prop, checks in LIST:
    if only and name not in only and prop not in only:
        continue
    d = "/tmp/mut/" + src
    v = subprocess.run(["python3", ROOT + "/tools/mutant.py", "verify", d], stdout=subprocess.PIPE, stderr=subprocess.STDOUT, text=True).stdout
    verified = v.strip().splitlines()[-1] if v.strip() else "?"
    caught = {}
    for c in checks:
        out = subprocess.run(["python3", ROOT + "/tools/mutant.py", "check", d, c], stdout=subprocess.PIPE, stderr=subprocess.STDOUT, text=True, errors="replace").stdout
        rc = [l for l in out.splitlines() if l.startswith("== ")]
        viol = [l for l in out.splitlines() if l.startswith("VIOLATION")]
        caught[c] = dict(rc=rc[-1] if rc else "?", violations=len(viol), first=(out.split("VIOLATION",1)[1][:400] if viol else ""))
    res[name] = dict(src=src, property=prop, verified=verified, checks=caught)
    json.dump(res, open("/tmp/mut/final.json", "w"), indent=1)
    print(name, verified, {c: caught[c]["rc"] for c in caught}, flush=True)
