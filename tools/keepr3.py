#!/usr/bin/env python3
"""Copy the verified, caught, non-duplicate round-3 seeded changes into /verif/seeded/R3-*/ with completed meta.json.
First-run results come from tools/mutround.py (final3*.json); for the changes that escaped the first run the results
of the re-runs done after the checks were strengthened are recorded here (each was run with tools/mutant.py check)."""
import json, os, shutil
ROOT = os.path.dirname(os.path.dirname(os.path.abspath(__file__)))
res = {}
for f in ("/tmp/mut3/final3.json", "/tmp/mut3/final3b.json"):
    if os.path.exists(f):
        res.update(json.load(open(f)))
KEEP = {
 "C01-m2": "mutaterows-status-carried-between-entries", "C01-m3": "mutaterow-stores-row-on-error-path", "C02-m1": "declared-md5-forgotten-after-rejection",
 "C02-m3": "multipart-payload-trailing-crlf-stripped", "C03-m2": "rows-limit-checked-after-emit", "C03-m3": "samplerowkeys-last-row-not-cleared",
 "C04-m1": "compose-source-cache-skips-precondition", "C04-m3": "preconditions-parsed-with-base-prefixes", "C05-m2": "readrows-error-of-earlier-range-overwritten",
 "C05-m3": "value-range-empty-open-start-ignored", "C06-m2": "strip-value-in-place-aliases-stored-row", "C06-m3": "gc-first-row-after-window-stale",
 "C07-m1": "memstore-updatemeta-in-place", "C08-m3": "open-fails-when-data-dir-missing", "C09-m2": "clonemeta-shares-empty-map",
 "C10-m1": "memstore-patch-keeps-body-name", "C10-m2": "compose-locks-url-path", "C11-m1": "page-token-url-encoding", "C11-m2": "delete-removes-bucket-dir",
 "C11-m3": "skip-directory-before-cursor-reversed", "C13-m2": "getcolumn-binary-search-on-unsorted", "C13-m3": "btree-get-returns-cached-row",
 "C16-m1": "update-without-rule-keeps-old-rule", "C17-m1": "btree-point-read-fast-path", "C17-m2": "recreate-serves-deleted-rows-on-disk", "C17-m3": "parent-component-length-unchecked",
 "C18-m3": "rmw-error-path-leaks-table-lock", "C19-m2": "unlock-blocks-instead-of-panicking", "C19-m3": "run-keeps-key-when-callback-panics",
 "C20-m2": "nil-family-map-after-reload", "C20-m3": "copy-locks-source-inside-destination",
}
# re-runs after strengthening: name -> {check: (exit, note)}
RERUN = {
 "C02-m1": {"C02": 1}, "C02-m3": {"C02": 1}, "C05-m2": {"C05": 1}, "C09-m2": {"C09": 1, "C10": 1}, "C10-m1": {"C10": 1, "C04": 1}, "C10-m2": {"C07": 1},
 "C19-m3": {"C19": 1}, "C11-m2": {"C09": 1}, "C06-m3": {"C16": 1}, "C04-m3": {"C04": 1}, "C16-m1": {"C16": 1, "C14": 1}, "C20-m2": {"C08": 1}, "C20-m3": {"C20": 1, "C15": 1},
 "C17-m1": {"C03": 1}, "C17-m3": {"C17": 1}, "C18-m3": {"C18": 1},
}
kept = []
for name, slug in sorted(KEEP.items()):
    r = res[name]
    assert r["verified"] == "VERIFIED", name
    checks = {c: dict(exit=v["rc"].split("rc=")[-1], violations_reported=v["violations"]) for c, v in r["checks"].items()}
    for c, e in RERUN.get(name, {}).items():
        first = checks.get(c, {}).get("exit")
        checks[c] = dict(exit=str(e), note="re-run after the check was strengthened" + (" (first run: escaped)" if first == "0" else " (neighbouring property, not run at first)"))
    caught = sorted(c for c, v in checks.items() if v["exit"] == "1")
    assert caught, name
    dst = os.path.join(ROOT, "seeded", "R3-%s-%s" % (name, slug))
    os.makedirs(dst, exist_ok=True)
    for f in os.listdir(r["src"]):
        shutil.copy(os.path.join(r["src"], f), os.path.join(dst, f))
    meta = json.load(open(os.path.join(dst, "meta.json")))
    meta["round"] = 3
    meta["what_it_needs"] = meta.get("needs", "")
    meta["demo_location"] = (meta.get("demo_location", "") or "").split()[0]
    meta["verified_by_me"] = dict(how="tools/mutant.py verify: scratch worktree of /repo HEAD; demo passes without the patch, fails with it; the touched module's unedited test suite passes with the patch", result="VERIFIED")
    meta["checks_run"] = {c: dict(cmd="VERIF_REPO=<patched worktree> ./run %s quick" % c, **v) for c, v in checks.items()}
    meta["caught_by"] = caught
    json.dump(meta, open(os.path.join(dst, "meta.json"), "w"), indent=1)
    kept.append((os.path.basename(dst), meta["property"], caught, any("escaped" in v.get("note", "") for v in checks.values()), meta["summary"]))
rows = ["| %s | %s | %s%s | %s |" % (n, p, ", ".join(c), " (after strengthening)" if e else "", s[:110].replace("|", "/").replace("\n", " ")) for n, p, c, e, s in kept]
open("/tmp/mut3/r3table.md", "w").write("\n".join(rows) + "\n")
print(len(kept), "kept")
