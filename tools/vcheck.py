#!/usr/bin/env python3
"""Driver for the /verif checks.

  vcheck.py <Cxx> quick|thorough     run one property's check
  vcheck.py --setup                  build every test binary
  vcheck.py --replay <file>          re-run one saved case (library-free path)

Exit codes: 0 property held on everything explored (KNOWN-FINDING lines allowed),
1 violation (a line "VIOLATION property=<id> replay=<path>" is printed),
2 inconclusive (build failure, timeout, worker death without a captured case).
"""
import concurrent.futures as cf
import hashlib
import json
import os
import re
import shutil
import signal
import subprocess
import sys
import time

ROOT = os.path.dirname(os.path.dirname(os.path.abspath(__file__)))
sys.path.insert(0, os.path.join(ROOT, "tools"))
from units import PROPS  # noqa: E402

GOENV = dict(os.environ, GOFLAGS="-mod=mod", GOPROXY="off", GOSUMDB="off", GOTOOLCHAIN="local")
PKGS = {"bt": "./checks/bt", "gcs": "./checks/gcs", "lockmap": "./checks/lockmap"}
NCPU = os.cpu_count() or 4


# Runs against a patched checkout (VERIF_REPO, seeded-change evaluation) write their evidence and the failing cases
# they find below VERIF_EVIDENCE_ROOT, so that /verif/evidence and /verif/replays only ever describe /repo itself.
OUTROOT = os.environ.get("VERIF_EVIDENCE_ROOT") or ROOT


def log(*a):
    print(*a, flush=True)


# ----------------------------------------------------------------------------- build

def build_dir():
    alt = os.environ.get("VERIF_REPO")
    if not alt:
        return os.path.join(ROOT, ".build"), []
    alt = os.path.abspath(alt)
    tag = hashlib.sha1(alt.encode()).hexdigest()[:10]
    d = os.path.join(ROOT, ".build", "alt-" + tag)
    os.makedirs(d, exist_ok=True)
    mod = open(os.path.join(ROOT, "go.mod")).read().replace("=> /repo/", "=> " + alt + "/")
    open(os.path.join(d, "alt.mod"), "w").write(mod)
    shutil.copy(os.path.join(ROOT, "go.sum"), os.path.join(d, "alt.sum"))
    return d, ["-modfile=" + os.path.join(d, "alt.mod")]


def binary(pkg, race, fuzz=False):
    d, _ = build_dir()
    return os.path.join(d, pkg + (".race" if race else "") + (".fuzz" if fuzz else "") + ".test")


def build(pkg, race, fuzz=None):
    d, extra = build_dir()
    os.makedirs(d, exist_ok=True)
    out = binary(pkg, race, bool(fuzz))
    cmd = ["go", "test", "-c", "-tags", "verif"] + extra + (["-race"] if race else []) + (["-fuzz=" + fuzz] if fuzz else []) + ["-o", out, PKGS[pkg]]
    t0 = time.time()
    p = subprocess.run(cmd, cwd=ROOT, env=GOENV, stdout=subprocess.PIPE, stderr=subprocess.STDOUT, text=True)
    if p.returncode != 0:
        log("BUILD-FAILED %s race=%s\n%s" % (pkg, race, p.stdout[-4000:]))
        return False
    log("built %s%s in %.1fs" % (pkg, " (race)" if race else "", time.time() - t0))
    return True


# ----------------------------------------------------------------------------- findings

def load_findings():
    p = os.path.join(ROOT, "known_findings.json")
    if not os.path.exists(p):
        return []
    return json.load(open(p)).get("findings", [])


# ----------------------------------------------------------------------------- running

def _child_setup(limit_as):
    def f():
        os.setsid()
        if limit_as:
            import resource
            try:
                resource.setrlimit(resource.RLIMIT_AS, (limit_as, limit_as))
            except Exception:  # noqa
                pass
    return f


def run_proc(cmd, env, logpath, timeout):
    # address-space cap for the plain binaries (a runaway case must not take the machine down);
    # -race binaries need a huge virtual address space for the detector's shadow memory, no cap there
    limit = 0 if (".race." in cmd[0] or ".fuzz." in cmd[0]) else 24 << 30
    with open(logpath, "w") as lf:
        p = subprocess.Popen(cmd, cwd=os.path.dirname(logpath), env=env, stdout=lf, stderr=subprocess.STDOUT,
                             preexec_fn=_child_setup(limit))
        try:
            rc = p.wait(timeout=timeout)
            return rc, False
        except subprocess.TimeoutExpired:
            try:
                os.killpg(p.pid, signal.SIGKILL)
            except ProcessLookupError:
                pass
            p.wait()
            return -9, True


def tail(path, n=40):
    try:
        lines = open(path, errors="replace").read().splitlines()
    except OSError:
        return ""
    keep = [l for l in lines if not re.match(r"^\d{4}/\d\d/\d\d \d\d:\d\d:\d\d ", l)]
    return "\n".join(keep[-n:])


def unit_of_test(prop, test):
    for u in PROPS[prop]["units"]:
        if u["test"] == test:
            return u
    return None


def replay_fuzz(prop, path, workdir, idx):
    """a saved native-fuzz crasher: fuzz-<FuzzName>-<hash>; re-run as a seed of that fuzz function"""
    name = os.path.basename(path).split("-")[1]
    u = unit_of_test(prop, name)
    if u is None:
        return "error", "", "no unit for fuzz target %r" % name
    d = os.path.join(workdir, "fuzzreplay-%d" % idx)
    os.makedirs(os.path.join(d, "testdata", "fuzz", name), exist_ok=True)
    shutil.copy(path, os.path.join(d, "testdata", "fuzz", name, os.path.basename(path)))
    env = dict(GOENV, VERIF_OUT=os.path.join(workdir, "out"), VERIF_TMP=os.path.join(workdir, "tmp"), VERIF_ROOT=ROOT)
    logpath = os.path.join(d, "replay.log")
    rc, to = run_proc([binary(u["pkg"], False), "-test.run", "^" + name + "$", "-test.count=1", "-test.timeout=300s"], env, logpath, 330)
    if rc == 0:
        return "pass", "", ""
    if to:
        return "error", "", "timeout"
    if "panic: HARNESS:" in open(logpath, errors="replace").read():
        return "error", "", "harness error: " + tail(logpath, 6).replace("\n", " | ")
    return "fail", "", tail(logpath, 12).replace("\n", " | ")


def replay_one(prop, path, workdir, idx):
    """returns (status, sig, msg): status in pass|fail|error"""
    if os.path.basename(path).startswith("fuzz-"):
        return replay_fuzz(prop, path, workdir, idx)
    try:
        ff = json.load(open(path))
    except Exception as e:  # noqa
        return "error", "", "cannot read %s: %s" % (path, e)
    test = ff.get("test", "")
    u = unit_of_test(prop, test)
    if u is None:
        return "error", "", "no unit for test %r" % test
    env = dict(GOENV, VERIF_OUT=os.path.join(workdir, "out"), VERIF_TMP=os.path.join(workdir, "tmp"))
    if u.get("race"):
        env["GORACE"] = "halt_on_error=1"
    logpath = os.path.join(workdir, "replay-%d.log" % idx)
    cmd = [binary(u["pkg"], u.get("race", False)), "-test.run", "^" + test + "$", "-test.count=1",
           "-verif.replay=" + path, "-test.timeout=%ds" % u.get("replay_timeout", 300)]
    rc, to = run_proc(cmd, env, logpath, u.get("replay_timeout", 300) + 30)
    text = open(logpath, errors="replace").read()
    m = re.search(r"^REPLAY-FAIL property=\S+ file=\S+ sig=(\S*) :: (.*)$", text, re.M)
    if m:
        return "fail", m.group(1), m.group(2)
    if re.search(r"^REPLAY-PASS ", text, re.M) and rc == 0:
        return "pass", "", ""
    if re.search(r"DATA RACE|^fatal error:|^panic:", text, re.M):
        return "fail", "", "process died: " + tail(logpath, 8).replace("\n", " | ")
    return "error", "", "rc=%s timeout=%s\n%s" % (rc, to, tail(logpath, 15))


def merge_evidence(prop, tier, seed, outdir, wall, violations, notes):
    spec = PROPS[prop]
    units = []
    total_evals = 0
    total_distinct = 0
    labels = {}
    samples = []
    known = {}
    extra = {}
    exhaustive_units = []
    rules = []
    for u in spec["units"]:
        hashes = set()
        evals = 0
        ulabels = {}
        usamples = []
        exh = False
        space = 0
        rule = ""
        nshards = 0
        for fn in sorted(os.listdir(outdir)) if os.path.isdir(outdir) else []:
            if not (fn.startswith("ev-%s-" % u["test"]) and fn.endswith(".json")):
                continue
            try:
                e = json.load(open(os.path.join(outdir, fn)))
            except Exception:  # noqa
                continue
            nshards += 1
            evals += e.get("evaluations", 0)
            hashes.update(e.get("nontrivial_hashes") or [])
            for k, v in (e.get("labels") or {}).items():
                ulabels[k] = ulabels.get(k, 0) + v
            for s in (e.get("samples") or []):
                if len(usamples) < 2:
                    usamples.append(s)
            for k, v in (e.get("known_finding_hits") or {}).items():
                known[k] = known.get(k, 0) + v
            for k, v in (e.get("extra") or {}).items():
                if isinstance(v, (int, float)) and not isinstance(v, bool):
                    extra[k] = extra.get(k, 0) + v
                else:
                    extra[k] = v
            exh = exh or e.get("exhaustive", False)
            space = max(space, e.get("space", 0))
            rule = e.get("rule", rule)
        units.append(dict(test=u["test"], evaluations=evals, distinct_nontrivial=len(hashes), shards=nshards,
                          labels=ulabels, exhaustive=exh, space=space))
        total_evals += evals
        total_distinct += len(hashes)
        for k, v in ulabels.items():
            labels[u["test"] + ":" + k] = v
        samples.extend(usamples)
        if exh:
            exhaustive_units.append(u["test"])
        if rule:
            rules.append("%s: %s" % (u["test"], rule))
    cov = dict(evaluations=total_evals, distinct_nontrivial=total_distinct, rule=" || ".join(rules) or spec.get("rule", ""),
               samples=samples[:6], labels=labels, units=units, known_finding_hits=known,
               exhaustive=bool(exhaustive_units) and len(exhaustive_units) == len(spec["units"]),
               exhaustive_units=exhaustive_units)
    cov.update(extra)
    if notes:
        cov["notes"] = notes
    ev = dict(property_id=prop, tier=tier, seed=seed, level=spec["level"], coverage=cov,
              assumptions=spec.get("assumptions", []), wall_s=round(wall, 2), violations=violations)
    os.makedirs(os.path.join(OUTROOT, "evidence"), exist_ok=True)
    tmp = os.path.join(OUTROOT, "evidence", prop + ".json.tmp")
    json.dump(ev, open(tmp, "w"), indent=1)
    os.replace(tmp, os.path.join(OUTROOT, "evidence", prop + ".json"))


def save_replay(prop, src):
    raw = open(src, "rb").read()
    h = hashlib.sha1(raw).hexdigest()[:12]
    d = os.path.join(OUTROOT, "replays", prop)
    os.makedirs(d, exist_ok=True)
    dst = os.path.join(d, "new-%s.json" % h)
    if not os.path.exists(dst):
        open(dst, "wb").write(raw)
    return dst


def check(prop, tier):
    t0 = time.time()
    seed = int(os.environ.get("VERIF_SEED", "1") or "1")
    spec = PROPS[prop]
    workdir = os.path.join(ROOT, ".work", "%s-%s-%d" % (prop, tier, os.getpid()))
    shutil.rmtree(workdir, ignore_errors=True)
    outdir = os.path.join(workdir, "out")
    os.makedirs(outdir)
    os.makedirs(os.path.join(workdir, "tmp"))
    violations = []   # (replay path, msg)
    inconclusive = []
    notes = []
    try:
        # ---- build
        need = sorted({(u["pkg"], bool(u.get("race"))) for u in spec["units"]})
        for pkg, race in need:
            if not build(pkg, race):
                merge_evidence(prop, tier, seed, outdir, time.time() - t0, 0, ["build failed"])
                return 2
        for u in spec["units"]:
            if u.get("kind") == "fuzz" and u.get(tier, 0):
                if not build(u["pkg"], False, u["test"]):
                    merge_evidence(prop, tier, seed, outdir, time.time() - t0, 0, ["build failed"])
                    return 2
        # ---- replay tier
        findings = [f for f in load_findings() if f.get("property") == prop]
        open_by_replay = {os.path.join(ROOT, f["replay"]): f for f in findings if f.get("status") == "open" and f.get("replay")}
        rdir = os.path.join(ROOT, "replays", prop)
        files = sorted(os.path.join(rdir, f) for f in os.listdir(rdir)) if os.path.isdir(rdir) else []
        files = [f for f in files if f.endswith(".json") or os.path.basename(f).startswith("fuzz-")]
        n_replayed = 0
        with cf.ThreadPoolExecutor(max_workers=NCPU) as ex:
            futs = {ex.submit(replay_one, prop, f, workdir, i): f for i, f in enumerate(files)}
            for fut in cf.as_completed(futs):
                f = futs[fut]
                st, sig, msg = fut.result()
                n_replayed += 1
                kf = open_by_replay.get(f)
                if st == "fail":
                    # a listed open finding only covers its own signature: anything else the file now shows is a violation
                    if kf is not None and sig == kf["id"]:
                        log("KNOWN-FINDING: property=%s %s [%s]" % (prop, kf["what"], kf["id"]))
                    else:
                        violations.append((f, msg))
                elif st == "pass":
                    if kf is not None:
                        notes.append("open finding %s no longer reproduces from %s" % (kf["id"], kf["replay"]))
                        log("note: open finding %s no longer reproduces" % kf["id"])
                else:
                    inconclusive.append("replay %s: %s" % (f, msg))
        log("replayed %d saved cases" % n_replayed)
        # ---- search tier
        jobs = []
        for ui, u in enumerate(spec["units"]):
            n = u.get(tier, u.get("quick", 0))
            if not n:
                continue
            if u.get("kind") == "fuzz":
                fdir = os.path.join(workdir, "fuzz-" + u["test"])
                os.makedirs(fdir, exist_ok=True)
                ft = u.get("fuzztime", "120s")
                env = dict(GOENV, VERIF_OUT=outdir, VERIF_TMP=os.path.join(workdir, "tmp", u["test"]), VERIF_ROOT=ROOT)
                cmd = [binary(u["pkg"], False, True), "-test.run", "^$", "-test.fuzz", "^" + u["test"] + "$", "-test.fuzztime", ft,
                       "-test.fuzzcachedir", os.path.join(fdir, "cache"), "-test.parallel", str(u.get("workers", NCPU)), "-test.timeout", "0"]
                secs = int(re.sub(r"[^0-9]", "", ft) or "120")
                jobs.append((u, 0, 0, cmd, env, os.path.join(fdir, "fuzz.log"), secs * 3 + 300))
                continue
            shards = u.get("shards_" + tier, 4 if tier == "quick" else NCPU)
            if u.get("kind", "rapid") == "rapid":
                shards = max(1, min(shards, n))
            per = -(-n // shards)
            timeout = u.get("timeout_" + tier, 900 if tier == "quick" else 7200)
            for i in range(shards):
                env = dict(GOENV, VERIF_OUT=outdir, VERIF_TMP=os.path.join(workdir, "tmp", "%s-%d" % (u["test"], i)), VERIF_ROOT=ROOT)
                if u.get("race"):
                    env["GORACE"] = "halt_on_error=1"
                cmd = [binary(u["pkg"], u.get("race", False)), "-test.run", "^" + u["test"] + "$", "-test.count=1", "-test.v",
                       "-test.timeout=%ds" % timeout,
                       "-verif.shard=%d" % i, "-verif.nshards=%d" % shards, "-verif.tier=" + tier, "-verif.seed=%d" % seed,
                       "-verif.n=%d" % per]
                if u.get("kind", "rapid") == "rapid":
                    cmd += ["-rapid.checks=%d" % per, "-rapid.seed=%d" % (seed * 1000003 + ui * 1009 + i + 1),
                            "-rapid.nofailfile", "-rapid.shrinktime=%s" % u.get("shrinktime", "20s")]
                    if u.get("steps"):
                        cmd += ["-rapid.steps=%d" % u["steps"]]
                jobs.append((u, i, per, cmd, env, os.path.join(workdir, "%s-%d.log" % (u["test"], i)), timeout + 60))
        def results():
            plain = [j for j in jobs if j[0].get("kind") != "fuzz"]
            with cf.ThreadPoolExecutor(max_workers=NCPU) as ex:
                futs = {ex.submit(run_proc, j[3], j[4], j[5], j[6]): j for j in plain}
                for fut in cf.as_completed(futs):
                    yield futs[fut], fut.result()
            for j in jobs:  # native fuzz campaigns use every core themselves: one after the other, after the rest
                if j[0].get("kind") == "fuzz":
                    yield j, run_proc(j[3], j[4], j[5], j[6])

        if True:
            for (u, i, per, cmd, env, logpath, _), (rc, timed_out) in results():
                failfile = os.path.join(outdir, "fail-%s-%d.json" % (u["test"], i))
                curfile = os.path.join(outdir, "current-%s-%d.json" % (u["test"], i))
                text = open(logpath, errors="replace").read()
                if u.get("kind") == "fuzz":
                    m = re.findall(r"execs: (\d+) .*?\(total: (\d+)\)", text)
                    execs, corpus = (int(m[-1][0]), int(m[-1][1])) if m else (0, 0)
                    json.dump(dict(test=u["test"], property=prop, rule="native go fuzzing (coverage-guided, %s, seed corpus from the generators); oracle inside the target; corpus entries = coverage-distinct inputs" % u.get("fuzztime"),
                                   shard=0, evaluations=execs, nontrivial_hashes=[], labels={}, samples=[], known_finding_hits={},
                                   extra={"fuzz_execs:" + u["test"]: execs, "fuzz_corpus:" + u["test"]: corpus}, exhaustive=False, space=0, wall_s=0),
                              open(os.path.join(outdir, "ev-%s-0.json" % u["test"]), "w"))
                    cdir = os.path.join(os.path.dirname(logpath), "testdata", "fuzz", u["test"])
                    crashers = sorted(os.listdir(cdir)) if os.path.isdir(cdir) else []
                    if rc != 0 and crashers and re.search(r"panic: HARNESS:", text):
                        # the harness could not even build / send the input: a defect of the machinery, never a finding
                        inconclusive.append("%s: harness error on a fuzz input\n%s" % (u["test"], tail(logpath, 12)))
                    elif rc != 0 and crashers:
                        for cf_ in crashers:
                            os.makedirs(os.path.join(OUTROOT, "replays", prop), exist_ok=True)
                            dst = os.path.join(OUTROOT, "replays", prop, "fuzz-%s-%s" % (u["test"], cf_))
                            os.makedirs(os.path.dirname(dst), exist_ok=True)
                            shutil.copy(os.path.join(cdir, cf_), dst)
                            violations.append((dst, "native fuzz crasher: " + tail(logpath, 14)))
                    elif rc != 0:
                        inconclusive.append("%s: fuzzing ended rc=%s timeout=%s\n%s" % (u["test"], rc, timed_out, tail(logpath, 20)))
                    continue
                if rc == 0:
                    if u.get("kind", "rapid") == "rapid":
                        m = re.search(r"\[rapid\] OK, passed (\d+) tests", text)
                        if not m or int(m.group(1)) < per:
                            inconclusive.append("%s shard %d: rapid passed %s of %d" % (u["test"], i, m.group(1) if m else "?", per))
                    continue
                if re.search(r"out of memory|cannot allocate memory", text):
                    inconclusive.append("%s shard %d: out of memory\n%s" % (u["test"], i, tail(logpath, 6)))
                elif os.path.exists(failfile):
                    dst = save_replay(prop, failfile)
                    msg = json.load(open(failfile)).get("failure", "")
                    violations.append((dst, msg))
                elif os.path.exists(curfile) and re.search(r"DATA RACE|^fatal error:|^panic:|\[signal ", text, re.M):
                    ff = json.load(open(curfile))
                    m = re.search(r"(WARNING: DATA RACE|^fatal error:|^panic:)", text, re.M)
                    snippet = "\n".join(text[m.start():].splitlines()[:14]) if m else tail(logpath, 12)
                    ff["failure"] = "process died: " + snippet
                    json.dump(ff, open(curfile, "w"), indent=1)
                    dst = save_replay(prop, curfile)
                    violations.append((dst, ff["failure"]))
                else:
                    inconclusive.append("%s shard %d: rc=%s timeout=%s\n%s" % (u["test"], i, rc, timed_out, tail(logpath, 25)))
        wall = time.time() - t0
        merge_evidence(prop, tier, seed, outdir, wall, len(violations), notes)
        if violations:
            seen = set()
            for path, msg in violations:
                if path in seen:
                    continue
                seen.add(path)
                log("VIOLATION property=%s replay=%s" % (prop, path))
                log("  " + "\n  ".join(msg.splitlines()[:4])[:700])
            return 1
        if inconclusive:
            for s in inconclusive:
                log("INCONCLUSIVE " + s)
            return 2
        ev = json.load(open(os.path.join(OUTROOT, "evidence", prop + ".json")))
        log("OK property=%s tier=%s evaluations=%d distinct_nontrivial=%d wall=%.1fs" % (
            prop, tier, ev["coverage"]["evaluations"], ev["coverage"]["distinct_nontrivial"], wall))
        return 0
    finally:
        if not os.environ.get("VERIF_KEEP"):
            shutil.rmtree(workdir, ignore_errors=True)


def setup():
    ok = True
    need = sorted({(u["pkg"], bool(u.get("race"))) for p in PROPS.values() for u in p["units"]})
    with cf.ThreadPoolExecutor(max_workers=3) as ex:
        for r in ex.map(lambda pr: build(*pr), need):
            ok = ok and r
    return 0 if ok else 2


def replay_cmd(path):
    path = os.path.abspath(path)
    if os.path.basename(path).startswith("fuzz-"):
        # a saved native-fuzz input: fuzz-<FuzzTarget>-<hash>; the target names the property
        name = os.path.basename(path).split("-")[1]
        prop = next((p for p in PROPS if unit_of_test(p, name) is not None), None)
        u = unit_of_test(prop, name) if prop else None
    else:
        ff = json.load(open(path))
        prop = ff["property"]
        u = unit_of_test(prop, ff["test"])
    if u is None or not build(u["pkg"], bool(u.get("race"))):
        return 2
    workdir = os.path.join(ROOT, ".work", "replay-%d" % os.getpid())
    os.makedirs(os.path.join(workdir, "out"), exist_ok=True)
    os.makedirs(os.path.join(workdir, "tmp"), exist_ok=True)
    try:
        st, sig, msg = replay_one(prop, path, workdir, 0)
        if st == "fail":
            log("VIOLATION property=%s replay=%s" % (prop, path))
            log("  " + msg)
            return 1
        if st == "pass":
            log("replay passed: property=%s %s" % (prop, path))
            return 0
        log("INCONCLUSIVE " + msg)
        return 2
    finally:
        shutil.rmtree(workdir, ignore_errors=True)


def main(argv):
    if len(argv) >= 1 and argv[0] == "--setup":
        return setup()
    if len(argv) >= 2 and argv[0] == "--replay":
        return replay_cmd(argv[1])
    if len(argv) >= 1 and argv[0] in PROPS:
        tier = argv[1] if len(argv) > 1 else os.environ.get("VERIF_TIER", "quick")
        if tier not in ("quick", "thorough"):
            tier = "quick"
        return check(argv[0], tier)
    log(__doc__)
    return 2


if __name__ == "__main__":
    sys.exit(main(sys.argv[1:]))
