#!/usr/bin/env python3
"""Copy the verified, caught, non-duplicate round-5 (function-focused) seeded changes into /verif/seeded/R3-*/ with completed meta.json.
First-run results come from tools/mutround.py (final3*.json); for the changes that escaped the first run the results
of the re-runs done after the checks were strengthened are recorded here (each was run with tools/mutant.py check)."""
import json, os, shutil
ROOT = os.path.dirname(os.path.dirname(os.path.abspath(__file__)))
res = {}
for f in ("/tmp/mut5/final5.json", "/tmp/mut5/none.json"):
    if os.path.exists(f):
        res.update(json.load(open(f)))
KEEP = {
 "G02-m1": "getorcreatecolumn-binary-search-on-unsorted", "G02-m3": "same-timestamp-search-stops-early",
 "G03-m2": "regex-dot-matches-newline", "G03-m3": "condition-emptiness-by-family-count",
 "G04-m1": "gc-writes-back-row-deleted-in-window", "G04-m3": "gcloop-uses-wall-clock",
 "G05-m1": "update-validated-against-live-families", "G05-m2": "purge-skips-recreated-family",
 "G06-m3": "append-ignores-future-cell-timestamp", "G07-m2": "resent-range-copied-in-place-keeps-stale-tail", "G07-m3": "media-upload-generation-header-from-request-object",
 "G08-m1": "must-not-exist-plus-other-condition-passes", "G08-m3": "compose-writes-component-count-into-source",
 "G09-m3": "memstore-updatemeta-finds-by-body-name", "G10-m3": "upload-response-read-after-unlock",
}
RERUN = {
 "G08-m1": {"C04": 1}, "G08-m3": {"C15": 1}, "G04-m3": {"C16": 1},
}
kept = []
for name, slug in sorted(KEEP.items()):
    r = res[name]
    assert r["verified"] == "VERIFIED", name
    checks = {c: dict(exit=v["rc"].split("rc=")[-1], violations_reported=v["violations"]) for c, v in r["checks"].items()}
    for c, e in RERUN.get(name, {}).items():
        first = checks.get(c, {}).get("exit")
        checks[c] = dict(exit=str(e), note="re-run after the check was strengthened" + (" (first run: escaped)" if first == "0" else " (neighbouring property, not run at first)"))
    caught = sorted(c for c, v in checks.items() if v["exit"] == "1")
    assert caught, name
    dst = os.path.join(ROOT, "seeded", "R5-%s-%s" % (name, slug))
    os.makedirs(dst, exist_ok=True)
    for f in os.listdir(r["src"]):
        shutil.copy(os.path.join(r["src"], f), os.path.join(dst, f))
    meta = json.load(open(os.path.join(dst, "meta.json")))
    meta["round"] = 5
    meta["what_it_needs"] = meta.get("needs", "")
    meta["demo_location"] = (meta.get("demo_location", "") or "").split()[0]
    meta["verified_by_me"] = dict(how="tools/mutant.py verify: scratch worktree of /repo HEAD; demo passes without the patch, fails with it; the touched module's unedited test suite passes with the patch", result="VERIFIED")
    meta["checks_run"] = {c: dict(cmd="VERIF_REPO=<patched worktree> ./run %s quick" % c, **v) for c, v in checks.items()}
    meta["caught_by"] = caught
    json.dump(meta, open(os.path.join(dst, "meta.json"), "w"), indent=1)
    kept.append((os.path.basename(dst), meta["property"], caught, any("escaped" in v.get("note", "") for v in checks.values()), meta["summary"]))
rows = ["| %s | %s | %s%s | %s |" % (n, p, ", ".join(c), " (after strengthening)" if e else "", s[:110].replace("|", "/").replace("\n", " ")) for n, p, c, e, s in kept]
open("/tmp/mut5/r5table.md", "w").write("\n".join(rows) + "\n")
print(len(kept), "kept")
