#!/usr/bin/env python3
"""Copy the verified, caught, non-duplicate round-7 (one change each, after the round-6 strengthening) seeded changes into /verif/seeded/R7-*/ with completed meta.json.
First-run results come from tools/mutround.py (final3*.json); for the changes that escaped the first run the results
of the re-runs done after the checks were strengthened are recorded here (each was run with tools/mutant.py check)."""
import json, os, shutil
ROOT = os.path.dirname(os.path.dirname(os.path.abspath(__file__)))
res = {}
for f in ("/tmp/mut7/final7.json", "/tmp/mut7/none.json"):
    if os.path.exists(f):
        res.update(json.load(open(f)))
KEEP = {
 "C06-m1": "deletefromrow-deletes-stored-row-at-once",
 "C16-m1": "idle-check-uses-older-activity-stamp", "C18-m1": "checkandmutate-predicate-under-read-lock-then-relock",
 "C19-m1": "unlock-returns-lock-object-in-defer",
}
RERUN = {
 "C16-m1": {"C16": 1}, "C18-m1": {"C06": 1},
}
kept = []
for name, slug in sorted(KEEP.items()):
    r = res[name]
    assert r["verified"] == "VERIFIED", name
    checks = {c: dict(exit=v["rc"].split("rc=")[-1], violations_reported=v["violations"]) for c, v in r["checks"].items()}
    for c, e in RERUN.get(name, {}).items():
        first = checks.get(c, {}).get("exit")
        checks[c] = dict(exit=str(e), note="re-run after the check was strengthened" + (" (first run: escaped)" if first == "0" else " (neighbouring property, not run at first)"))
    caught = sorted(c for c, v in checks.items() if v["exit"] == "1")
    assert caught, name
    dst = os.path.join(ROOT, "seeded", "R7-%s-%s" % (name, slug))
    os.makedirs(dst, exist_ok=True)
    for f in os.listdir(r["src"]):
        shutil.copy(os.path.join(r["src"], f), os.path.join(dst, f))
    meta = json.load(open(os.path.join(dst, "meta.json")))
    meta["round"] = 7
    meta["what_it_needs"] = meta.get("needs", "")
    meta["demo_location"] = (meta.get("demo_location", "") or "").split()[0]
    meta["verified_by_me"] = dict(how="tools/mutant.py verify: scratch worktree of /repo HEAD; demo passes without the patch, fails with it; the touched module's unedited test suite passes with the patch", result="VERIFIED")
    meta["checks_run"] = {c: dict(cmd="VERIF_REPO=<patched worktree> ./run %s quick" % c, **v) for c, v in checks.items()}
    meta["caught_by"] = caught
    json.dump(meta, open(os.path.join(dst, "meta.json"), "w"), indent=1)
    kept.append((os.path.basename(dst), meta["property"], caught, any("escaped" in v.get("note", "") for v in checks.values()), meta["summary"]))
rows = ["| %s | %s | %s%s | %s |" % (n, p, ", ".join(c), " (after strengthening)" if e else "", s[:110].replace("|", "/").replace("\n", " ")) for n, p, c, e, s in kept]
open("/tmp/mut7/r7table.md", "w").write("\n".join(rows) + "\n")
print(len(kept), "kept")
