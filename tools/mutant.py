#!/usr/bin/env python3
"""Verify a seeded mutant and run checks against it.

  mutant.py verify <mutdir>            apply patch in a scratch worktree of /repo HEAD; demo must fail with it,
                                       pass without it; the module's own test suite must pass with it
  mutant.py check  <mutdir> <Cxx> [tier] [more Cxx...]  run ./run Cxx tier with VERIF_REPO=<patched worktree>
  mutant.py keep   <mutdir> <name>     copy patch/demo/meta into /verif/seeded/<name>/

<mutdir> holds patch.diff, meta.json and the demo file(s).
"""
import glob
import json
import os
import re
import shutil
import subprocess
import sys

ROOT = os.path.dirname(os.path.dirname(os.path.abspath(__file__)))
ENV = dict(os.environ, GOFLAGS="-mod=mod", GOPROXY="off", GOSUMDB="off", GOTOOLCHAIN="local")


def sh(cmd, cwd=None, env=None, check=False, timeout=None):
    p = subprocess.run(cmd, cwd=cwd, env=env or ENV, shell=isinstance(cmd, str), stdout=subprocess.PIPE,
                       stderr=subprocess.STDOUT, text=True, timeout=timeout)
    if check and p.returncode != 0:
        print(p.stdout[-3000:])
        raise SystemExit("command failed: %s" % cmd)
    return p.returncode, p.stdout


def worktree():
    wt = "/tmp/mutwt-%d" % os.getpid()
    sh(["git", "-C", "/repo", "worktree", "add", "-q", "--detach", wt, "HEAD"], check=True)
    return wt


def rm_worktree(wt):
    sh(["git", "-C", "/repo", "worktree", "remove", "--force", wt])
    shutil.rmtree(wt, ignore_errors=True)
    import hashlib
    tag = hashlib.sha1(os.path.abspath(wt).encode()).hexdigest()[:10]  # same naming as tools/vcheck.py build_dir()
    shutil.rmtree(os.path.join(ROOT, ".build", "alt-" + tag), ignore_errors=True)


def apply(wt, mutdir):
    rc, out = sh(["git", "-C", wt, "apply", "--3way", os.path.join(mutdir, "patch.diff")])
    if rc != 0:
        rc, out = sh(["git", "-C", wt, "apply", os.path.join(mutdir, "patch.diff")])
    if rc != 0:
        print(out)
        raise SystemExit("patch does not apply to current /repo HEAD")
    sh(["git", "-C", wt, "reset", "-q"])


def demo_info(mutdir):
    meta = json.load(open(os.path.join(mutdir, "meta.json")))
    demos = [f for f in glob.glob(os.path.join(mutdir, "*.go"))]
    loc = (meta.get("demo_location", "") or "").split()
    loc = loc[0] if loc else ""
    return meta, demos, loc


def run_demo(wt, mutdir):
    meta, demos, loc = demo_info(mutdir)
    if not demos:
        raise SystemExit("no demo .go file in " + mutdir)
    # demo_location may be a file path or a directory
    d = loc
    if d.endswith(".go"):
        d = os.path.dirname(d)
    dst = os.path.join(wt, d)
    os.makedirs(dst, exist_ok=True)
    names = []
    placed = []
    for f in demos:
        tgt = os.path.join(dst, "zz_" + os.path.basename(f) if not os.path.basename(f).endswith("_test.go") else os.path.basename(f))
        shutil.copy(f, tgt)
        placed.append(tgt)
        names += re.findall(r"^func (Test\w+)\(", open(f).read(), re.M)
    mod = "bigtable" if d.startswith("bigtable") else "storage"
    pkg = "./" + os.path.relpath(dst, os.path.join(wt, mod))
    tags = ["-tags", "verif"] if any("//go:build verif" in open(f).read() for f in demos) else []
    rc, out = sh(["go", "test", "-vet=off", "-count=1"] + tags + ["-run", "^(" + "|".join(names) + ")$", pkg], cwd=os.path.join(wt, mod), timeout=900)
    for t in placed:
        os.remove(t)
    return rc, out, mod


def verify(mutdir):
    wt = worktree()
    try:
        rc0, out0, mod = run_demo(wt, mutdir)
        print("demo WITHOUT change: rc=%d" % rc0)
        apply(wt, mutdir)
        rc1, out1, mod = run_demo(wt, mutdir)
        print("demo WITH change:    rc=%d" % rc1)
        for attempt in range(3):
            # the storage suite's temp directory is named after the current second: concurrent runs can collide
            rc2, out2 = sh("go build ./... && go test -vet=off -count=1 ./...", cwd=os.path.join(wt, mod), timeout=1800)
            if rc2 == 0:
                break
        print("existing suite WITH change: rc=%d" % rc2)
        ok = rc0 == 0 and rc1 != 0 and rc2 == 0
        if not ok:
            print("---- demo without:\n" + out0[-1500:] + "\n---- demo with:\n" + out1[-1500:] + "\n---- suite:\n" + out2[-1500:])
        print("VERIFIED" if ok else "NOT-VERIFIED")
        return 0 if ok else 1
    finally:
        rm_worktree(wt)


def check(mutdir, props, tier):
    wt = worktree()
    res = {}
    try:
        apply(wt, mutdir)
        scratch = wt + "-out"
        env = dict(ENV, VERIF_REPO=wt, VERIF_EVIDENCE_ROOT=scratch)
        for p in props:
            # evidence and failing cases of this run go to a scratch directory: /verif/evidence and /verif/replays
            # describe /repo only
            rc, out = sh([os.path.join(ROOT, "run"), p, tier], cwd=ROOT, env=env, timeout=7200)
            lines = [l for l in out.splitlines() if l.startswith(("VIOLATION", "  ", "INCONCLUSIVE", "OK ", "KNOWN"))]
            print("== %s %s on mutant: rc=%d" % (p, tier, rc))
            print("\n".join(lines[:12]))
            res[p] = rc
        shutil.rmtree(scratch, ignore_errors=True)
        return res
    finally:
        rm_worktree(wt)


def keep(mutdir, name):
    dst = os.path.join(ROOT, "seeded", name)
    os.makedirs(dst, exist_ok=True)
    for f in os.listdir(mutdir):
        shutil.copy(os.path.join(mutdir, f), os.path.join(dst, f))
    print("kept as", dst)


if __name__ == "__main__":
    a = sys.argv[1:]
    if a[0] == "verify":
        sys.exit(verify(os.path.abspath(a[1])))
    if a[0] == "check":
        tier = "quick"
        props = []
        for x in a[2:]:
            if x in ("quick", "thorough"):
                tier = x
            else:
                props.append(x)
        r = check(os.path.abspath(a[1]), props, tier)
        sys.exit(0 if all(v == 1 for v in r.values()) else 3)
    if a[0] == "keep":
        keep(os.path.abspath(a[1]), a[2])
