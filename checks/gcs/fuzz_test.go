package gcschecks

import (
	"testing"

	"verif/internal/gcs"
)

// Native coverage-guided fuzzing of the GCS HTTP surface (thorough tier of C20).

var fuzzMethods = []string{"GET", "POST", "PUT", "PATCH", "DELETE", "HEAD", "OPTIONS"}

func FuzzC20GCS(f *testing.F) {
	for i := 0; i < 200; i++ {
		r := gcs.GenHostileReq().Example(i)
		if len(r.Path) > 2000 || len(r.Body) > 4000 {
			continue
		}
		m := 0
		for j, x := range fuzzMethods {
			if x == r.Method {
				m = j
			}
		}
		f.Add(byte(m), r.Path, r.Headers["Content-Type"], r.Headers["Content-Range"], r.Headers["Content-Encoding"] == "gzip", []byte(r.Body))
	}
	f.Add(byte(1), "/batch/storage/v1", "multipart/mixed; boundary=b", "", false, []byte("--b\r\nContent-Type: application/http\r\n\r\nGET /storage/v1/b/bkt/o/a HTTP/1.1\r\n\r\n\r\n--b--\r\n"))
	f.Fuzz(func(t *testing.T, m byte, path, ct, cr string, gz bool, body []byte) {
		store := "mem"
		if m&0x80 != 0 {
			store = "file"
		}
		if !gcs.ValidPath(path) {
			return
		}
		e, err := gcs.NewEmu(store, "")
		if err != nil {
			t.Skip()
		}
		defer e.Close()
		canary := gcs.NewRunner(e)
		if mis := canarySetup(canary); mis != "" {
			t.Fatalf("canary setup: %s", mis)
		}
		e.Do(&gcs.Req{Method: "POST", Path: "/upload/storage/v1/b/bkt/o?uploadType=media&name=a", Body: "AAAA"})
		e.Do(&gcs.Req{Method: "POST", Path: "/upload/storage/v1/b/bkt/o?uploadType=media&name=dir%2Fx", Body: "XX"})
		e.Do(&gcs.Req{Method: "POST", Path: "/upload/storage/v1/b/bkt/o?uploadType=resumable&name=rs", Headers: map[string]string{"Content-Type": "application/json"}, Body: `{"name":"rs"}`})
		h := map[string]string{}
		if ct != "" {
			h["Content-Type"] = ct
		}
		if cr != "" {
			h["Content-Range"] = cr
		}
		if gz {
			h["Content-Encoding"] = "gzip"
		}
		for k, v := range h {
			for i := 0; i < len(v); i++ {
				if v[i] < 0x20 || v[i] == 0x7f {
					delete(h, k) // not a legal header value: net/http would refuse to send it
					break
				}
			}
		}
		req := &gcs.Req{Method: fuzzMethods[int(m&0x7f)%len(fuzzMethods)], Path: path, Headers: h, Body: gcs.BS(body)}
		resp := e.Do(req)
		if mis := checkResponse(req, resp); mis != "" {
			t.Fatalf("%s %s: %s", req.Method, path, mis)
		}
		if mis := canaryCheck(e, canary, 0); mis != "" {
			t.Fatalf("after %s %s: %s", req.Method, path, mis)
		}
	})
}
