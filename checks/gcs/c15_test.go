package gcschecks

import (
	"testing"

	"pgregory.net/rapid"

	"verif/internal/gcs"
	"verif/internal/vt"
)

// C15 — compose concatenates its sources in order; copy clones an object.

var c15Names = []string{"a", "a.txt", "dir/x", "sp ace", "d/o/x", "o/o/o", "with space", "dots..", "ünï/codé", "q?x", "e"}

func genC15() *rapid.Generator[SeqCase] {
	return rapid.Custom(func(t *rapid.T) SeqCase {
		c := SeqCase{Store: rapid.SampledFrom(gcs.Stores).Draw(t, "store")}
		pool := c15Names
		pool = append(append([]string{}, c15Names...), gcs.HostileNames...) // URL-parser-hostile names (G6)
		pool = append(pool, gcs.NestNames...)
		names := rapid.SliceOfNDistinct(rapid.SampledFrom(pool), 2, 5, func(s string) string { return s }).Draw(t, "names")
		if rapid.IntRange(0, 7).Draw(t, "nest") == 0 {
			// names in each other's way (the runner skips a request whose name is not representable at that moment):
			// a destination that was a directory of the file store until the objects below it were deleted
			names = rapid.SliceOfNDistinct(rapid.SampledFrom(gcs.NestNames), 2, 4, func(s string) string { return s }).Draw(t, "nestnames")
		}
		buckets := gcs.BucketPool[:rapid.IntRange(1, 2).Draw(t, "nbuckets")]
		// seed some objects (one possibly empty)
		for i, n := range names[:len(names)-1] {
			k := "text"
			if i == 1 {
				k = rapid.SampledFrom([]string{"empty", "text", "bin"}).Draw(t, "k")
			}
			c.Steps = append(c.Steps, gcs.Op{K: "upload", Bucket: buckets[i%len(buckets)], Name: n, Proto: "multipart",
				Data: gcs.Payload{K: k, Seed: i + 1, N: i * 3}, CT: "text/plain", Meta: map[string]string{"src": n}})
		}
		step := rapid.Custom(func(t *rapid.T) gcs.Op {
			bucket := func() string { return rapid.SampledFrom(buckets).Draw(t, "bucket") }
			name := func() string { return rapid.SampledFrom(names).Draw(t, "name") }
			switch k := rapid.IntRange(0, 19).Draw(t, "kind"); {
			case k < 8:
				op := gcs.Op{K: "compose", Bucket: bucket(), Name: name(), CT: rapid.SampledFrom(gcs.CTPool).Draw(t, "ct")}
				if rapid.Bool().Draw(t, "hasmeta") {
					op.Meta = map[string]string{"composed": rapid.SampledFrom([]string{"1", "yes"}).Draw(t, "mv")}
				}
				n := rapid.SampledFrom([]int{0, 1, 1, 2, 2, 3, 3, 4, 5, 31, 32, 33}).Draw(t, "nsrc")
				for i := 0; i < n; i++ {
					s := gcs.Src{Name: name()}
					if rapid.IntRange(0, 5).Draw(t, "srccond") == 0 {
						s.GM = gcs.Cond{K: rapid.SampledFrom([]string{"cur", "other"}).Draw(t, "sgm")}
					}
					op.Srcs = append(op.Srcs, s)
				}
				if rapid.IntRange(0, 9).Draw(t, "dstcond") == 0 {
					op.Conds = gcs.GenConds(100).Draw(t, "conds")
				}
				return op
			case k < 14:
				return gcs.Op{K: "copy", Bucket: bucket(), Name: name(), DstBucket: bucket(), DstName: name()}
			case k < 16:
				return gcs.GenUpload(buckets, names, false).Draw(t, "upload")
			case k < 17:
				return gcs.Op{K: "delete", Bucket: bucket(), Name: name()}
			case k < 18:
				return gcs.GenPatch(buckets, names, 0, false).Draw(t, "patch")
			default:
				return gcs.Op{K: "get", Bucket: bucket(), Name: name(), Form: rapid.SampledFrom([]string{"json", "download", "public"}).Draw(t, "form")}
			}
		})
		c.Steps = append(c.Steps, rapid.SliceOfN(step, 1, 14).Draw(t, "steps")...)
		return c
	})
}

func runC15(c SeqCase, ev *vt.Ev) *vt.Failure {
	r, f := runSeq("C15", c)
	if f != nil {
		return f
	}
	nontrivial := false
	for _, s := range c.Steps {
		if s.K == "compose" && len(s.Srcs) >= 3 && r.Labels["compose-ok"] {
			seen := map[string]bool{}
			for _, x := range s.Srcs {
				if seen[x.Name] || x.Name == s.Name {
					nontrivial = true
				}
				seen[x.Name] = true
			}
		}
	}
	if r.Labels["copy-cross-bucket"] && r.Labels["copy-ok"] {
		for _, s := range c.Steps {
			if s.K == "copy" && s.Bucket != s.DstBucket && len(s.DstName) > 1 && containsSlash(s.DstName) {
				nontrivial = true
			}
		}
	}
	ev.Case(c, nontrivial, labelsOf(r, "store="+c.Store)...)
	return nil
}

func containsSlash(s string) bool {
	for i := 0; i < len(s); i++ {
		if s[i] == '/' {
			return true
		}
	}
	return false
}

func TestC15(t *testing.T) {
	vt.Prop[SeqCase]{ID: "C15", Test: "TestC15",
		Rule: "rapid-generated programs on both stores: seeded objects (one possibly empty) then composes (0..33 sources with repeats, destination among the sources, missing sources, per-source generation match, destination metadata) and copies (same / other bucket, onto existing objects, from missing sources, destination names containing '/', '/o/', spaces, dots, '?') mixed with uploads, patches, deletes; oracle = concatenation / clone model with every object re-read after every step; non-trivial = a successful compose of >=3 sources with a repeat or the destination among them, or a cross-bucket copy to a name containing '/'",
		Gen:  genC15(), Run: runC15}.Main(t)
}
