package gcschecks

import (
	"testing"

	"verif/internal/gcs"
	"verif/internal/vt"
)

// C10 — generation and metageneration follow the versioning laws.
//
// The laws are monitors inside gcs.Runner: a content write must report a
// generation greater than every generation the name had before and
// metageneration 1 (contentWritten); a patch raises metageneration by exactly
// one, merges only the supplied fields and leaves generation/content/size/MD5
// alone (patch + matchObj); after EVERY request every object's pair is re-read
// through metadata GET, media headers and the listing and must be unchanged
// unless the model says so (VerifyAll).

func runC10(c SeqCase, ev *vt.Ev) *vt.Failure {
	r, f := runSeq("C10", c)
	if f != nil {
		return f
	}
	nontrivial := r.Writes >= 3 && r.AdjacentWrites >= 1 && r.Patches >= 1 && r.Failed >= 1 && r.Recreates >= 1
	ev.Case(c, nontrivial, labelsOf(r, "store="+c.Store)...)
	return nil
}

func TestC10(t *testing.T) {
	vt.Prop[SeqCase]{ID: "C10", Test: "TestC10",
		Rule: "rapid-generated histories of 8-60 requests on 1-4 names in 1-2 buckets, both stores, no delay anywhere: content writes by each protocol, compose, copy-as-destination, patches of 1-3 user-settable fields (and attempts on read-only fields), reads, failing requests (bad conditions, bad MD5, malformed bodies, 404s), deletes and re-creations; oracle = history monitors (strict generation growth per name over its whole history, metageneration 1 / +1, invariance of every other object after every request, agreement of headers, upload response, metadata GET and listing); non-trivial = >=3 content writes incl. two adjacent ones on one name, >=1 patch, >=1 failed request, >=1 delete-and-recreate",
		Gen:  genHistory(15, true, 8, 60), Run: runC10}.Main(t)
}

var _ = gcs.Stores
