package gcschecks

import (
	"encoding/json"
	"fmt"
	"regexp"
	"sort"
	"strings"
	"testing"

	"pgregory.net/rapid"

	"verif/internal/gcs"
	"verif/internal/vt"
)

// C09 — file store persists everything and is equivalent to the memory store.

// ---------------------------------------------------------------- (a) restart

func genC09Restart() *rapid.Generator[SeqCase] {
	return rapid.Custom(func(t *rapid.T) SeqCase {
		base := genHistory(10, false, 6, 40).Draw(t, "history")
		base.Store = "file"
		names := map[string]bool{}
		var steps []gcs.Op
		pct := rapid.SampledFrom([]int{10, 30, 100}).Draw(t, "restartPct")
		for _, s := range base.Steps {
			steps = append(steps, s)
			names[s.Bucket+"\x00"+s.Name] = true
			if rapid.IntRange(0, 99).Draw(t, "restart") < pct {
				steps = append(steps, gcs.Op{K: "restart"})
			}
			if rapid.IntRange(0, 19).Draw(t, "sidecar") == 0 {
				steps = append(steps, gcs.Op{K: "dropsidecar", Bucket: s.Bucket, Name: s.Name}, gcs.Op{K: "restart"})
			}
		}
		base.Steps = steps
		return base
	})
}

func runC09Restart(c SeqCase, ev *vt.Ev) *vt.Failure {
	r, f := runSeq("C09", c)
	if f != nil {
		return f
	}
	levels := map[int]bool{}
	for _, b := range r.M.Buckets {
		for n := range b {
			levels[strings.Count(n, "/")] = true
		}
	}
	nontrivial := r.Restarts >= 1 && r.Patches >= 1 && r.Deletes >= 1 && r.M.NumObjects() >= 3 && len(levels) >= 2
	ev.Case(c, nontrivial, labelsOf(r, fmt.Sprintf("restarts>=3:%v", r.Restarts >= 3))...)
	return nil
}

func TestC09Restart(t *testing.T) {
	vt.Prop[SeqCase]{ID: "C09", Test: "TestC09Restart",
		Rule: "rapid-generated request programs (uploads by all protocols, patches, deletes, compose, copy, nested names) on the file store with a restart (a NEW emulator on a NEW file store over the same directory) after 10% / 30% / every request, plus removal of a drawn object's .emumeta sidecar; after every restart all buckets' listings and every object's metadata, bytes, generation and metageneration are re-read and must equal what was acknowledged before; non-trivial = a restart after >=1 patch and >=1 delete with >=3 live objects in >=2 directory levels",
		Gen:  genC09Restart(), Run: runC09Restart}.Main(t)
}

// ---------------------------------------------------------------- (b) differential

type traceEnt struct {
	Method string
	Status int
	Body   string
	Hdr    string
}

var tmpPath = regexp.MustCompile(`/[^ "]*gcsfile[0-9]+`)

type normalizer struct {
	rank map[string]string
}

func (n *normalizer) gen(v string) string {
	if v == "" || v == "0" {
		return v
	}
	if r, ok := n.rank[v]; ok {
		return r
	}
	r := fmt.Sprintf("G%d", len(n.rank))
	n.rank[v] = r
	return r
}

func (n *normalizer) walk(x interface{}) interface{} {
	switch v := x.(type) {
	case map[string]interface{}:
		out := map[string]interface{}{}
		for k, e := range v {
			switch k {
			case "updated", "timeCreated", "selfLink", "mediaLink", "nextPageToken", "etag", "id":
				continue
			case "generation":
				if s, ok := e.(string); ok {
					out[k] = n.gen(s)
					continue
				}
			case "message":
				if s, ok := e.(string); ok {
					out[k] = tmpPath.ReplaceAllString(s, "<dir>")
					continue
				}
			}
			out[k] = n.walk(e)
		}
		return out
	case []interface{}:
		for i := range v {
			v[i] = n.walk(v[i])
		}
		return v
	}
	return x
}

func (n *normalizer) ent(req *gcs.Req, resp *gcs.Resp) traceEnt {
	t := traceEnt{Method: req.Method, Status: resp.Status}
	if resp.Panic != "" {
		t.Body = "PANIC"
		return t
	}
	ct := resp.Header.Get("Content-Type")
	if strings.HasPrefix(ct, "application/json") {
		var x interface{}
		if err := json.Unmarshal(resp.Body, &x); err == nil {
			b, _ := json.Marshal(n.walk(x))
			t.Body = string(b)
		} else {
			t.Body = "UNPARSABLE-JSON:" + string(resp.Body)
		}
	} else {
		t.Body = fmt.Sprintf("%d bytes:%x", len(resp.Body), resp.Body)
		if len(t.Body) > 200 {
			t.Body = t.Body[:200]
		}
	}
	var hs []string
	for _, h := range []string{"Content-Type", "X-Goog-Generation", "X-Goog-Metageneration", "Range", "X-Http-Status-Code-Override", "Content-Encoding", "Content-Disposition"} {
		v := resp.Header.Get(h)
		if h == "X-Goog-Generation" {
			v = n.gen(v)
		}
		if h == "Content-Type" && strings.HasPrefix(v, "multipart/") {
			v = "multipart"
		}
		hs = append(hs, h+"="+v)
	}
	sort.Strings(hs)
	t.Hdr = strings.Join(hs, ";")
	return t
}

func runC09Diff(c SeqCase, ev *vt.Ev) *vt.Failure {
	var runners []*gcs.Runner
	traces := make([][]traceEnt, 2)
	for i, st := range gcs.Stores {
		e, err := gcs.NewEmu(st, "")
		if err != nil {
			return vt.Failf("C09", "emulator start: %v", err)
		}
		defer e.Close()
		i := i
		nz := &normalizer{rank: map[string]string{}}
		e.Hook = func(req *gcs.Req, resp *gcs.Resp) { traces[i] = append(traces[i], nz.ent(req, resp)) }
		rn := gcs.NewRunner(e)
		rn.FileNames = true
		runners = append(runners, rn)
	}
	listed := false
	for si := range c.Steps {
		op := &c.Steps[si]
		from := []int{len(traces[0]), len(traces[1])}
		var mis [2]string
		for i, r := range runners {
			mis[i] = r.Do(op)
			if mis[i] == "" {
				mis[i] = r.VerifyAll()
			}
		}
		a, b := traces[0][from[0]:], traces[1][from[1]:]
		for k := 0; k < len(a) && k < len(b); k++ {
			if a[k] != b[k] {
				return vt.Failf("C09", "step %d (%s): memory and file store answer request %d of the step differently:\n  mem:  %d %s [%s]\n  file: %d %s [%s]", si, op.K, k,
					a[k].Status, clipS(a[k].Body), a[k].Hdr, b[k].Status, clipS(b[k].Body), b[k].Hdr)
			}
		}
		if len(a) != len(b) {
			return vt.Failf("C09", "step %d (%s): the two stores needed a different number of requests (%d vs %d): %s | %s", si, op.K, len(a), len(b), mis[0], mis[1])
		}
		for i := range mis {
			if mis[i] != "" {
				return vt.Failf("C09", "step %d on %s store: %s", si, gcs.Stores[i], mis[i])
			}
		}
		if op.K == "list" {
			listed = true
		}
	}
	_ = listed
	r := runners[0]
	ev.Case(c, len(c.Steps) >= 10 && r.Writes >= 3 && r.M.NumObjects() >= 2, labelsOf(r)...)
	ev.Add("programs", 1)
	ev.Add("responses_compared", int64(len(traces[0])))
	return nil
}

func clipS(s string) string {
	if len(s) > 500 {
		return s[:500] + "…"
	}
	return s
}

func TestC09Diff(t *testing.T) {
	g := rapid.Custom(func(t *rapid.T) SeqCase {
		c := genHistory(25, true, 6, 40).Draw(t, "history")
		c.Store = "both"
		return c
	})
	vt.Prop[SeqCase]{ID: "C09", Test: "TestC09Diff",
		Rule: "differential: the same rapid-generated sequential program (file-representable names) is run on a memory-store and a file-store emulator side by side; every response of every request (the operation itself plus the re-read of every object, deleted name and listing after it) is compared after normalisation (generations -> rank of first appearance, timestamps/links/tokens dropped, temp-dir paths masked): status, headers, bodies, metadata, listing order must agree; non-trivial = >=10 steps, >=3 content writes, >=2 live objects",
		Gen:  g, Run: runC09Diff}.Main(t)
}
