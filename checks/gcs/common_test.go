package gcschecks

import (
	"encoding/base64"
	"os"
	"testing"

	"verif/internal/gcs"
	"verif/internal/vt"
)

func TestMain(m *testing.M) {
	if d := os.Getenv("VERIF_TMP"); d != "" {
		_ = os.MkdirAll(d, 0o777)
		os.Setenv("TMPDIR", d)
	}
	os.Exit(m.Run())
}

// SeqCase: a sequential request program against one store.
type SeqCase struct {
	Store string   `json:"store"`
	Steps []gcs.Op `json:"steps"`
}

// runSeq executes the program with all monitors on; after every step every
// object, every deleted name and every bucket listing is re-read.
func runSeq(prop string, c SeqCase) (*gcs.Runner, *vt.Failure) {
	e, err := gcs.NewEmu(c.Store, "")
	if err != nil {
		return nil, vt.Failf(prop, "emulator start: %v", err)
	}
	defer e.Close()
	r := gcs.NewRunner(e)
	r.FileNames = true
	for i := range c.Steps {
		op := &c.Steps[i]
		if mis := r.Do(op); mis != "" {
			return r, vt.Failf(prop, "step %d on %s store: %s", i, c.Store, mis)
		}
		if mis := r.VerifyAll(); mis != "" {
			return r, vt.Failf(prop, "after step %d (%s) on %s store: %s", i, op.K, c.Store, mis)
		}
	}
	return r, nil
}

func labelsOf(r *gcs.Runner, extra ...string) []string {
	ls := append([]string{}, extra...)
	for l := range r.Labels {
		ls = append(ls, l)
	}
	return ls
}

func gcsB64(b []byte) string { return base64.StdEncoding.EncodeToString(b) }
