package gcschecks

import (
	"bufio"
	"bytes"
	"encoding/json"
	"fmt"
	"io"
	"mime"
	"mime/multipart"
	"net/http"
	"strings"
	"sync"
	"testing"
	"time"

	"pgregory.net/rapid"

	"verif/internal/gcs"
	"verif/internal/vt"
)

// C20 (Cloud Storage half) — no request or request mix can crash or wedge the service.

type C20GCSCase struct {
	Store  string          `json:"store"`
	Setup  []gcs.Op        `json:"setup"`
	Probes []gcs.Req       `json:"probes"`
	Batch  []gcs.BatchPart `json:"batch,omitempty"` // well-formed batch, compared with solo execution on a twin emulator
}

const canaryBucket = "canary-bucket"

var batchParts = []gcs.BatchPart{
	{Method: "GET", Path: "/storage/v1/b/bkt/o/a"},
	{Method: "GET", Path: "/storage/v1/b/bkt/o/missing"},
	{Method: "GET", Path: "/storage/v1/b/bkt/o"},
	{Method: "GET", Path: "/storage/v1/b/nobucket/o"},
	{Method: "DELETE", Path: "/storage/v1/b/bkt/o/a"},
	{Method: "DELETE", Path: "/storage/v1/b/bkt/o/dir%2Fx"},
	{Method: "DELETE", Path: "/storage/v1/b/bkt/o/missing"},
	{Method: "PATCH", Path: "/storage/v1/b/bkt/o/a", Body: `{"metadata":{"k":"v"}}`, CT: "application/json"},
	{Method: "PATCH", Path: "/storage/v1/b/bkt/o/a?ifMetagenerationMatch=7", Body: `{"metadata":{"k":"w"}}`, CT: "application/json"},
	{Method: "PATCH", Path: "/storage/v1/b/bkt/o/missing", Body: `{}`, CT: "application/json"},
	{Method: "GET", Path: "/storage/v1/b/bkt/o/a?alt=media"},
	{Method: "POST", Path: "/storage/v1/b/bkt/o/a/rewriteTo/b/bkt/o/copy", Body: "{}", CT: "application/json"},
	{Method: "GET", Path: "/storage/v1/b/bkt/o?maxResults=abc"},
	// inner requests larger than the 4 KiB an HTTP reader buffers at first
	{Method: "PATCH", Path: "/storage/v1/b/bkt/o/a", Body: gcs.BigPatchBody, CT: "application/json"},
	{Method: "POST", Path: "/storage/v1/b/bkt/o/big/compose", Body: `{"sourceObjects":[{"name":"a"}],"destination":{"contentType":"text/plain","metadata":{"pad":"` + strings.Repeat("p", 6000) + `"}}}`, CT: "application/json"},
}

func genC20GCS() *rapid.Generator[C20GCSCase] {
	return rapid.Custom(func(t *rapid.T) C20GCSCase {
		c := C20GCSCase{Store: rapid.SampledFrom(gcs.Stores).Draw(t, "store")}
		names := []string{"a", "dir/x", "x/o/y"}
		c.Setup = rapid.SliceOfN(gcs.GenUpload([]string{"bkt", "b2"}, names, false), 0, 4).Draw(t, "setup")
		for i := range c.Setup {
			c.Setup[i].MD5 = ""
		}
		c.Probes = rapid.SliceOfN(gcs.GenHostileReq(), 1, 12).Draw(t, "probes")
		// multi-step scenarios that single perturbed requests rarely line up
		switch rapid.IntRange(0, 5).Draw(t, "scenario") {
		case 0: // an object marked gzip whose bytes are not gzip, downloaded with and without Accept-Encoding
			c.Probes = append(c.Probes,
				gcs.Req{Method: "POST", Path: "/upload/storage/v1/b/bkt/o?uploadType=media&name=z", Body: "plain"},
				gcs.Req{Method: "PATCH", Path: "/storage/v1/b/bkt/o/z", Headers: map[string]string{"Content-Type": "application/json"}, Body: gcs.BS(`{"contentEncoding":"gzip"}`)},
				gcs.Req{Method: "GET", Path: "/storage/v1/b/bkt/o/z?alt=media", Headers: map[string]string{"Accept-Encoding": rapid.SampledFrom([]string{"", "gzip", "br"}).Draw(t, "ae")}})
		case 1: // a live resumable session attacked with hostile ranges
			c.Probes = append(c.Probes, gcs.Req{Method: "POST", Path: "/upload/storage/v1/b/bkt/o?uploadType=resumable&name=rs", Headers: map[string]string{"Content-Type": "application/json"}, Body: gcs.BS(`{"name":"rs"}`)})
			for i, n := 0, rapid.IntRange(1, 4).Draw(t, "nres"); i < n; i++ {
				blen := rapid.SampledFrom([]int{0, 1, 5, 10}).Draw(t, "blen")
				lo := rapid.SampledFrom([]int{0, 1, 3, 5, 10, 11, 100}).Draw(t, "lo")
				rng := fmt.Sprintf("bytes %d-%d/%s", lo, lo+blen-1, rapid.SampledFrom([]string{"*", "13", "5", "0"}).Draw(t, "tot"))
				if rapid.IntRange(0, 3).Draw(t, "hostilerange") == 0 {
					rng = rapid.SampledFrom([]string{"bytes */*", "bytes */13", "bytes -1-3/*", "bytes 5-2/*", "", "bytes 0-9223372036854775807/*"}).Draw(t, "hr")
				}
				h := map[string]string{}
				if rng != "" {
					h["Content-Range"] = rng
				}
				c.Probes = append(c.Probes, gcs.Req{Method: "PUT", Path: "/upload/storage/v1/b/bkt/o?upload_id=" + rapid.SampledFrom([]string{"1", "1", "1", "2"}).Draw(t, "uid"), Headers: h, Body: gcs.BS(strings.Repeat("x", blen))})
			}
		}
		if rapid.IntRange(0, 2).Draw(t, "hasbatch") == 0 {
			c.Batch = rapid.SliceOfN(rapid.SampledFrom(batchParts), 1, 5).Draw(t, "batch")
		}
		return c
	})
}

// checkResponse: the well-formedness oracle for one response.
func checkResponse(req *gcs.Req, resp *gcs.Resp) string {
	if resp.Panic != "" {
		lines := strings.Split(resp.Panic, "\n")
		keep := []string{lines[0]}
		for _, l := range lines {
			if strings.Contains(l, "gcsemu.") || strings.Contains(l, "gcsutil.") {
				keep = append(keep, strings.TrimSpace(l))
			}
		}
		if len(keep) > 8 {
			keep = keep[:8]
		}
		return "panic: " + strings.Join(keep, " | ")
	}
	if resp.Status < 100 || resp.Status > 599 {
		return fmt.Sprintf("HTTP status %d out of range", resp.Status)
	}
	ct := resp.Header.Get("Content-Type")
	isJSON := strings.HasPrefix(ct, "application/json")
	if isJSON && len(bytes.TrimSpace(resp.Body)) > 0 {
		var x interface{}
		if err := json.Unmarshal(resp.Body, &x); err != nil {
			return fmt.Sprintf("HTTP %d with Content-Type %q but the body is not JSON: %.200q", resp.Status, ct, resp.Body)
		}
		if resp.Status >= 400 {
			var je gcs.JErr
			if err := json.Unmarshal(resp.Body, &je); err != nil || je.Error.Code != resp.Status {
				return fmt.Sprintf("error body of HTTP %d does not carry error.code=%d: %.200s", resp.Status, resp.Status, resp.Body)
			}
		}
	}
	if resp.Status >= 400 && !isJSON && req.Method != "HEAD" {
		// only the generic wrappers (gzip request decoding, net/http itself) may answer in plain text
		if !(resp.Status == 400 && req.Headers["Content-Encoding"] == "gzip") {
			return fmt.Sprintf("API-level error HTTP %d is not a JSON error response (Content-Type %q): %.200q", resp.Status, ct, resp.Body)
		}
	}
	return ""
}

func doWithWatchdog(e *gcs.Emu, r *gcs.Req) (*gcs.Resp, bool) {
	// e.Do reports a blocked request itself (HANG in Resp.Panic): this only bounds a machine too slow to judge
	ch := make(chan *gcs.Resp, 1)
	fin := make(chan struct{})
	go func() { ch <- e.Do(r); close(fin) }()
	vt.Await(fin, 120*time.Second, nil, "probe")
	return <-ch, true
}

func canarySetup(r *gcs.Runner) string {
	for i, n := range []string{"canary1", "dir/canary2.txt"} {
		if mis := r.Do(&gcs.Op{K: "upload", Bucket: canaryBucket, Name: n, Proto: "multipart", Data: gcs.Payload{K: "text", Seed: i, N: 10}, CT: "text/plain", Meta: map[string]string{"canary": "yes"}}); mis != "" {
			return mis
		}
	}
	return ""
}

func canaryCheck(e *gcs.Emu, canary *gcs.Runner, n int) string {
	if mis := canary.VerifyAll(); mis != "" {
		return "canary data changed: " + mis
	}
	name := fmt.Sprintf("probe-%d", n)
	up := e.Do(&gcs.Req{Method: "POST", Path: "/upload/storage/v1/b/" + canaryBucket + "/o?uploadType=media&name=" + name, Body: "fresh"})
	dl := e.Do(&gcs.Req{Method: "GET", Path: gcs.ObjPath(canaryBucket, name) + "?alt=media"})
	de := e.Do(&gcs.Req{Method: "DELETE", Path: gcs.ObjPath(canaryBucket, name)})
	if up.Status != 200 || dl.Status != 200 || string(dl.Body) != "fresh" || de.Status != 204 {
		return fmt.Sprintf("a fresh upload+download no longer works: upload %d, download %d %q, delete %d", up.Status, dl.Status, dl.Body, de.Status)
	}
	return ""
}

// parseBatchResponse splits a multipart/mixed batch response into (status, body) pairs.
func parseBatchResponse(resp *gcs.Resp) ([]*http.Response, [][]byte, string) {
	mt, params, err := mime.ParseMediaType(resp.Header.Get("Content-Type"))
	if err != nil || !strings.HasPrefix(mt, "multipart/") {
		return nil, nil, fmt.Sprintf("batch response has Content-Type %q", resp.Header.Get("Content-Type"))
	}
	mr := multipart.NewReader(bytes.NewReader(resp.Body), params["boundary"])
	var out []*http.Response
	var bodies [][]byte
	for {
		p, err := mr.NextPart()
		if err == io.EOF {
			break
		}
		if err != nil {
			return nil, nil, "batch response is not well-formed multipart: " + err.Error()
		}
		raw, _ := io.ReadAll(p)
		hr, err := http.ReadResponse(bufio.NewReader(bytes.NewReader(raw)), nil)
		if err != nil {
			return nil, nil, fmt.Sprintf("batch sub-response is not an HTTP response: %v: %.120q", err, raw)
		}
		b, _ := io.ReadAll(hr.Body)
		out = append(out, hr)
		bodies = append(bodies, b)
	}
	return out, bodies, ""
}

func runC20GCS(c C20GCSCase, ev *vt.Ev) *vt.Failure {
	mk := func() (*gcs.Emu, *gcs.Runner, *gcs.Runner, *vt.Failure) {
		e, err := gcs.NewEmu(c.Store, "")
		if err != nil {
			return nil, nil, nil, vt.Failf("C20", "emulator start: %v", err)
		}
		canary := gcs.NewRunner(e)
		if mis := canarySetup(canary); mis != "" {
			e.Close()
			return nil, nil, nil, vt.Failf("C20", "canary setup: %s", mis)
		}
		r := gcs.NewRunner(e)
		for i := range c.Setup {
			if mis := r.Do(&c.Setup[i]); mis != "" {
				e.Close()
				return nil, nil, nil, vt.Failf("C20", "setup step %d: %s", i, mis)
			}
		}
		return e, canary, r, nil
	}
	e, canary, _, f := mk()
	if f != nil {
		return f
	}
	defer e.Close()
	labels := map[string]bool{"store=" + c.Store: true}
	reached := 0
	// ---- batch vs solo differential on a twin emulator with identical history
	if len(c.Batch) > 0 {
		twin, _, _, f := mk()
		if f != nil {
			return f
		}
		defer twin.Close()
		req := &gcs.Req{Method: "POST", Path: "/batch/storage/v1", Headers: map[string]string{"Content-Type": "multipart/mixed; boundary=batch_x"}, Body: gcs.BS(gcs.BatchBody(c.Batch, "batch_x"))}
		resp := e.Do(req)
		if mis := checkResponse(req, resp); mis != "" {
			return vt.Failf("C20", "batch request: %s", mis)
		}
		if resp.Status != 200 {
			return vt.Failf("C20", "well-formed batch of %d parts answered HTTP %d %.200s", len(c.Batch), resp.Status, resp.Body)
		}
		subs, bodies, mis := parseBatchResponse(resp)
		if mis != "" {
			return vt.Failf("C20", "%s", mis)
		}
		if len(subs) != len(c.Batch) {
			return vt.Failf("C20", "batch of %d parts answered with %d sub-responses", len(c.Batch), len(subs))
		}
		na, nb := &normalizer{rank: map[string]string{}}, &normalizer{rank: map[string]string{}}
		for i, p := range c.Batch {
			h := map[string]string{}
			if p.CT != "" {
				h["Content-Type"] = p.CT
			}
			solo := twin.Do(&gcs.Req{Method: p.Method, Path: p.Path, Headers: h, Body: gcs.BS(p.Body)})
			a := na.ent(&gcs.Req{Method: p.Method}, &gcs.Resp{Status: subs[i].StatusCode, Header: subs[i].Header, Body: bodies[i]})
			b := nb.ent(&gcs.Req{Method: p.Method}, solo)
			if a.Status != b.Status || a.Body != b.Body {
				return vt.Failf("C20", "batch part %d (%s %s): sub-response differs from the same request on its own:\n  in batch: %d %s\n  solo:     %d %s", i, p.Method, p.Path, a.Status, clipS(a.Body), b.Status, clipS(b.Body))
			}
			if id := subs[i].Header.Get("Content-ID"); false && id == "" {
				_ = id
			}
		}
		labels["batch-vs-solo"] = true
		reached++
	}
	// ---- hostile probes
	for i := range c.Probes {
		p := &c.Probes[i]
		if !gcs.ValidPath(p.Path) || p.Method == "" {
			labels["rejected-by-http-layer"] = true
			continue
		}
		resp, returned := doWithWatchdog(e, p)
		if !returned {
			return vt.Failf("C20", "probe %d (%s %.150s) did not return (hang)", i, p.Method, p.Path)
		}
		reached++
		labels[fmt.Sprintf("status=%dxx", resp.Status/100)] = true
		if mis := checkResponse(p, resp); mis != "" {
			return vt.Failf("C20", "probe %d (%s %.200s body %.80q headers %v): %s", i, p.Method, p.Path, string(p.Body), p.Headers, mis)
		}
		if mis := canaryCheck(e, canary, i); mis != "" {
			return vt.Failf("C20", "after probe %d (%s %.200s): %s", i, p.Method, p.Path, mis)
		}
	}
	var ls []string
	for l := range labels {
		ls = append(ls, l)
	}
	ev.Case(c, reached >= 1, ls...)
	return nil
}

func TestC20GCS(t *testing.T) {
	vt.Prop[C20GCSCase]{ID: "C20", Test: "TestC20GCS",
		Rule: "Cloud Storage: after a drawn valid setup, 1-12 perturbed requests per case on both stores from templates for every route (3 upload protocols, resumable continuation with hostile Content-Range / unknown upload ids, metadata and media GET in 3 URL forms, list, patch, delete object / bucket, new bucket, compose, rewrite, batch, unknown methods and paths) with hostile buckets, names, query values (ill-typed / overflowing numbers, bad tokens), bodies (null, {}, truncated JSON, truncated multipart, wrong boundary, bad gzip, malformed batch parts) and proxy headers; plus one third of the cases a well-formed batch compared part by part with the same requests run on their own on a twin emulator with identical history; oracle: no panic, status 100-599, JSON bodies parse, error bodies carry error.code = status, API-level errors are JSON, the call returns (a request whose goroutine sits in a lock / channel wait in 5 samples after 60 s is a hang; a slow one is waited for), canary objects byte- and metadata-identical afterwards and a fresh upload+download works; non-trivial = a perturbed request reached the emulator",
		Gen:  genC20GCS(), Run: runC20GCS}.Main(t)
}

// ---------------------------------------------------------------- concurrent mixes (-race)

type C20GCSMix struct {
	Store   string      `json:"store"`
	Workers [][]gcs.Req `json:"workers"`
}

func genC20GCSMix() *rapid.Generator[C20GCSMix] {
	return rapid.Custom(func(t *rapid.T) C20GCSMix {
		c := C20GCSMix{Store: rapid.SampledFrom(gcs.Stores).Draw(t, "store")}
		req := rapid.Custom(func(t *rapid.T) gcs.Req {
			n := rapid.SampledFrom([]string{"a", "b", "dir/x", "dir/y"}).Draw(t, "name")
			switch rapid.IntRange(0, 11).Draw(t, "k") {
			case 0, 1, 2:
				return gcs.Req{Method: "POST", Path: "/upload/storage/v1/b/bkt/o?uploadType=media&name=" + gcs.EscName(n), Body: gcs.BS("data-" + n)}
			case 3:
				return gcs.Req{Method: "DELETE", Path: gcs.ObjPath("bkt", n)}
			case 4, 5:
				return gcs.Req{Method: "GET", Path: "/storage/v1/b/bkt/o?maxResults=2&delimiter=/"}
			case 6:
				return gcs.Req{Method: "DELETE", Path: "/storage/v1/b/bkt"}
			case 7:
				return gcs.Req{Method: "POST", Path: gcs.ObjPath("bkt", "composed") + "/compose", Headers: map[string]string{"Content-Type": "application/json"},
					Body: gcs.BS(`{"sourceObjects":[{"name":"a"},{"name":"` + n + `"}],"destination":{"contentType":"text/plain"}}`)}
			case 8:
				return gcs.Req{Method: "PUT", Path: "/upload/storage/v1/b/bkt/o?upload_id=1", Headers: map[string]string{"Content-Range": rapid.SampledFrom([]string{"bytes 0-4/*", "bytes 5-9/10", "bytes 0-9/10", "bytes */*"}).Draw(t, "cr")},
					Body: gcs.BS(rapid.SampledFrom([]string{"01234", "56789", "0123456789", ""}).Draw(t, "cb"))}
			case 9:
				return gcs.Req{Method: "PATCH", Path: gcs.ObjPath("bkt", n), Headers: map[string]string{"Content-Type": "application/json"}, Body: `{"metadata":{"k":"v"}}`}
			case 10:
				// copies to a fresh name, onto the object itself, and between the live names in both directions (two
				// requests that each need both objects)
				dst := rapid.SampledFrom([]string{"copy-" + n, n, "a", "b", "dir/x"}).Draw(t, "dst")
				return gcs.Req{Method: "POST", Path: gcs.ObjPath("bkt", n) + "/rewriteTo/b/bkt/o/" + gcs.EscName(dst), Body: "{}"}
			default:
				return gcs.Req{Method: "GET", Path: gcs.ObjPath("bkt", n) + "?alt=media"}
			}
		})
		for w, nw := 0, rapid.IntRange(4, 8).Draw(t, "workers"); w < nw; w++ {
			c.Workers = append(c.Workers, rapid.SliceOfN(req, 5, 30).Draw(t, fmt.Sprintf("w%d", w)))
		}
		return c
	})
}

func runC20GCSMix(c C20GCSMix, ev *vt.Ev) *vt.Failure {
	vt.WriteCurrent("TestC20GCSMix", "C20", c)
	defer vt.ClearCurrent("TestC20GCSMix")
	e, err := gcs.NewEmu(c.Store, "")
	if err != nil {
		return vt.Failf("C20", "emulator start: %v", err)
	}
	defer e.Close()
	canary := gcs.NewRunner(e)
	if mis := canarySetup(canary); mis != "" {
		return vt.Failf("C20", "canary setup: %s", mis)
	}
	// a resumable session shared by several clients
	e.Do(&gcs.Req{Method: "POST", Path: "/upload/storage/v1/b/bkt/o?uploadType=resumable&name=resumed", Headers: map[string]string{"Content-Type": "application/json"}, Body: `{"name":"resumed"}`})
	var mu sync.Mutex
	var first string
	calls := 0
	var wg sync.WaitGroup
	for w := range c.Workers {
		w := w
		wg.Add(1)
		go func() {
			defer wg.Done()
			for i := range c.Workers[w] {
				rq := &c.Workers[w][i]
				resp := e.Do(rq)
				mis := checkResponse(rq, resp)
				mu.Lock()
				calls++
				if mis != "" && first == "" {
					first = fmt.Sprintf("worker %d request %d (%s %s): %s", w, i, rq.Method, rq.Path, mis)
				}
				mu.Unlock()
			}
		}()
	}
	done := make(chan struct{})
	go func() { wg.Wait(); close(done) }()
	// every request goes through e.Do, which reports a blocked request as HANG: this only bounds a slow machine
	vt.Await(done, 180*time.Second, nil, "concurrent mix")
	if first != "" {
		return vt.Failf("C20", "%s", first)
	}
	if mis := canaryCheck(e, canary, 0); mis != "" {
		return vt.Failf("C20", "after the concurrent mix: %s", mis)
	}
	ev.Case(c, calls >= 40, "store="+c.Store)
	return nil
}

func TestC20GCSMix(t *testing.T) {
	vt.Prop[C20GCSMix]{ID: "C20", Test: "TestC20GCSMix",
		Rule: "Cloud Storage, under the Go race detector: 4-8 goroutines x 5-30 requests on one bucket: uploads, deletes, listings with delimiter and small pages while objects appear and vanish, bucket deletion while uploading, compose while its sources are overwritten / deleted, several clients continuing ONE resumable upload_id, patches, copies, media reads; oracle: no race report, no panic or fatal error, every response well formed, everything returns (same hang rule), canary bucket intact; non-trivial = >=40 requests completed",
		Gen:  genC20GCSMix(), Run: runC20GCSMix}.Main(t)
}
