package gcschecks

import (
	"context"
	"crypto/md5"
	"encoding/json"
	"fmt"
	"net/url"
	"os"
	"runtime"
	"sort"
	"strconv"
	"strings"
	"sync"
	"sync/atomic"
	"testing"
	"time"

	"github.com/anishathalye/porcupine"
	"github.com/fullstorydev/emulators/storage/gcsemu"
	"github.com/fullstorydev/emulators/storage/gcsutil"
	"google.golang.org/api/storage/v1"
	"pgregory.net/rapid"

	"verif/internal/gcs"
	"verif/internal/sched"
	"verif/internal/vt"
)

// C07 — concurrent operations on one object are atomic and serialisable.

type C07Req struct {
	K     string   `json:"k"` // upload | patch | delete | compose | copy | getmeta | getmedia
	Proto string   `json:"proto,omitempty"`
	Seed  int      `json:"seed,omitempty"`
	GM    string   `json:"gm,omitempty"` // "" | g0 | zero | stale
	MM    string   `json:"mm,omitempty"` // "" | m0
	Srcs  []string `json:"srcs,omitempty"`
	Echo  bool     `json:"echo,omitempty"` // patch: the body also carries the metageneration the client read ("1")
}

type C07Case struct {
	Store   string     `json:"store"`
	Present bool       `json:"present"` // T exists at the start (generation G0, metageneration 1)
	Workers [][]C07Req `json:"workers"`
	Choices []int      `json:"choices,omitempty"`
	Jitter  []int      `json:"jitter,omitempty"`
}

const c07T = "dir/t.bin"

// ---------------------------------------------------------------- sequential object model

type c07State struct {
	Exists  bool              `json:"e"`
	DataMD5 string            `json:"d"` // md5 of the bytes served
	MetaMD5 string            `json:"m"` // md5Hash reported by metadata ("" for composite objects)
	Size    int               `json:"s"`
	CT      string            `json:"ct"`
	Meta    map[string]string `json:"meta"`
	Gen     int64             `json:"g"`
	Metagen int64             `json:"mg"`
	MaxGen  int64             `json:"x"`
	Data    string            `json:"data"` // contents (small)
}

func (s c07State) enc() string { b, _ := json.Marshal(s); return string(b) }
func c07Dec(x string) c07State {
	var s c07State
	_ = json.Unmarshal([]byte(x), &s)
	if s.Meta == nil {
		s.Meta = map[string]string{}
	}
	return s
}

type c07In struct {
	Req      C07Req
	W        int
	G0       int64
	Data     string // upload payload / resolved at call time
	SrcData  map[string]string
	Key, Val string // patch
}

type c07Out struct {
	Status  int
	Gen     int64
	Metagen int64
	MD5     string
	Size    string
	CT      string
	Meta    map[string]string
	BodyMD5 string
	BodyLen int
	Panic   string
}

func md5b64(b []byte) string {
	h := md5.Sum(b)
	return gcsB64(h[:])
}

func c07CondFails(in c07In, st c07State) (fails bool) {
	switch in.Req.GM {
	case "g0":
		if !st.Exists || st.Gen != in.G0 {
			return true
		}
	case "zero":
		if st.Exists {
			return true
		}
	case "stale":
		if !st.Exists || st.Gen != in.G0-1 {
			return true
		}
	}
	if in.Req.MM == "m0" {
		if !st.Exists || st.Metagen != 1 {
			return true
		}
	}
	return false
}

var c07Model = porcupine.Model{
	Init: func() interface{} { return c07State{Meta: map[string]string{}}.enc() },
	Step: func(state, input, output interface{}) (bool, interface{}) {
		st := c07Dec(state.(string))
		in := input.(c07In)
		out := output.(c07Out)
		if out.Panic != "" {
			return false, state
		}
		write := func(data string, ct string, meta map[string]string, composite bool) (bool, interface{}) {
			if out.Status != 200 || out.Gen <= st.MaxGen || out.Metagen != 1 {
				return false, state
			}
			ns := c07State{Exists: true, Data: data, DataMD5: md5b64([]byte(data)), MetaMD5: md5b64([]byte(data)), Size: len(data), CT: ct, Meta: map[string]string{}, Gen: out.Gen, Metagen: 1, MaxGen: out.Gen}
			for k, v := range meta {
				ns.Meta[k] = v
			}
			if composite {
				ns.MetaMD5 = ""
			}
			// the write response must describe the object this request created
			if out.Size != strconv.Itoa(ns.Size) && !(out.Size == "" && ns.Size == 0) {
				return false, state
			}
			if out.MD5 != ns.MetaMD5 {
				return false, state
			}
			return true, ns.enc()
		}
		condFail := func() (bool, interface{}) {
			return out.Status == 412 || out.Status == 304, state
		}
		switch in.Req.K {
		case "upload":
			if c07CondFails(in, st) {
				return condFail()
			}
			return write(in.Data, "text/plain", nil, false)
		case "compose":
			for _, s := range in.Req.Srcs {
				if s == c07T && !st.Exists && out.Status == 404 {
					return true, state // missing source; may be reported before the destination conditions are judged
				}
			}
			if c07CondFails(in, st) {
				return condFail()
			}
			var data string
			for _, s := range in.Req.Srcs {
				if s == c07T {
					if !st.Exists {
						return out.Status == 404, state
					}
					data += st.Data
				} else {
					data += in.SrcData[s]
				}
			}
			return write(data, "text/composed", nil, true)
		case "copy", "copyx":
			return write(in.SrcData["s1"], "text/plain", map[string]string{"src": "s1"}, false)
		case "patch":
			if !st.Exists {
				return out.Status == 404 || out.Status == 412, state
			}
			if c07CondFails(in, st) {
				return condFail()
			}
			if out.Status != 200 {
				return false, state
			}
			ns := st
			ns.Meta = map[string]string{}
			for k, v := range st.Meta {
				ns.Meta[k] = v
			}
			ns.Meta[in.Key] = in.Val
			ns.Metagen = st.Metagen + 1
			if out.Gen != ns.Gen || out.Metagen != ns.Metagen || !sameMeta(out.Meta, ns.Meta) {
				return false, state
			}
			return true, ns.enc()
		case "delete":
			if !st.Exists {
				return out.Status == 404 || out.Status == 412, state
			}
			if c07CondFails(in, st) {
				return condFail()
			}
			if out.Status != 204 && out.Status != 200 {
				return false, state
			}
			ns := c07State{Meta: map[string]string{}, MaxGen: st.MaxGen}
			return true, ns.enc()
		case "getmeta":
			if !st.Exists {
				return out.Status == 404, state
			}
			ok := out.Status == 200 && out.Gen == st.Gen && out.Metagen == st.Metagen && out.MD5 == st.MetaMD5 &&
				(out.Size == strconv.Itoa(st.Size) || (out.Size == "" && st.Size == 0)) && out.CT == st.CT && sameMeta(out.Meta, st.Meta)
			return ok, state
		case "getmedia":
			if !st.Exists {
				return out.Status == 404, state
			}
			ok := out.Status == 200 && out.Gen == st.Gen && out.Metagen == st.Metagen && out.BodyMD5 == st.DataMD5 && out.BodyLen == st.Size && out.CT == st.CT
			return ok, state
		}
		return false, state
	},
	Equal: func(a, b interface{}) bool { return a.(string) == b.(string) },
	DescribeOperation: func(input, output interface{}) string {
		in := input.(c07In)
		out := output.(c07Out)
		return fmt.Sprintf("w%d %s(gm=%s mm=%s srcs=%v data=%q %s=%s) -> %d gen=%d metagen=%d md5=%s size=%s meta=%v body=%s/%d", in.W, in.Req.K, in.Req.GM, in.Req.MM, in.Req.Srcs, in.Data, in.Key, in.Val,
			out.Status, out.Gen, out.Metagen, out.MD5, out.Size, out.Meta, out.BodyMD5, out.BodyLen)
	},
}

func sameMeta(a, b map[string]string) bool {
	if len(a) != len(b) {
		return false
	}
	for k, v := range a {
		if b[k] != v {
			return false
		}
	}
	return true
}

// ---------------------------------------------------------------- yielding store decorator

type yStore struct {
	in gcsemu.Store
	y  func(string)
}

func (s *yStore) CreateBucket(b string) error { s.y("store.CreateBucket"); return s.in.CreateBucket(b) }
func (s *yStore) GetBucketMeta(u gcsemu.HttpBaseUrl, b string) (*storage.Bucket, error) {
	s.y("store.GetBucketMeta")
	return s.in.GetBucketMeta(u, b)
}
func (s *yStore) Get(u gcsemu.HttpBaseUrl, b, f string) (*storage.Object, []byte, error) {
	s.y("store.Get")
	return s.in.Get(u, b, f)
}
func (s *yStore) GetMeta(u gcsemu.HttpBaseUrl, b, f string) (*storage.Object, error) {
	s.y("store.GetMeta")
	return s.in.GetMeta(u, b, f)
}
func (s *yStore) Add(b, f string, c []byte, m *storage.Object) error {
	s.y("store.Add")
	return s.in.Add(b, f, c, m)
}
func (s *yStore) UpdateMeta(b, f string, m *storage.Object, mg int64) error {
	s.y("store.UpdateMeta")
	return s.in.UpdateMeta(b, f, m, mg)
}
func (s *yStore) Copy(sb, sf, db, df string) (bool, error) {
	s.y("store.Copy")
	return s.in.Copy(sb, sf, db, df)
}
func (s *yStore) Delete(b, f string) error { s.y("store.Delete"); return s.in.Delete(b, f) }
func (s *yStore) ReadMeta(u gcsemu.HttpBaseUrl, b, f string, fi os.FileInfo) (*storage.Object, error) {
	s.y("store.ReadMeta")
	return s.in.ReadMeta(u, b, f, fi)
}
func (s *yStore) Walk(ctx context.Context, b string, cb func(ctx context.Context, filename string, fInfo os.FileInfo) error) error {
	s.y("store.Walk")
	return s.in.Walk(ctx, b, cb)
}

// ---------------------------------------------------------------- running

func c07Payload(w, i, seed int) string { return fmt.Sprintf("data-w%d-%d-%d", w, i, seed) }

func parseOut(resp *gcs.Resp, media bool) c07Out {
	o := c07Out{Status: resp.Status, Panic: resp.Panic}
	if media {
		o.BodyMD5 = md5b64(resp.Body)
		o.BodyLen = len(resp.Body)
		o.Gen, _ = strconv.ParseInt(resp.Header.Get("X-Goog-Generation"), 10, 64)
		o.Metagen, _ = strconv.ParseInt(resp.Header.Get("X-Goog-Metageneration"), 10, 64)
		o.CT = resp.Header.Get("Content-Type")
		return o
	}
	if resp.Status == 200 {
		body := resp.Body
		var rr struct {
			Resource json.RawMessage `json:"resource"`
		}
		if json.Unmarshal(body, &rr) == nil && len(rr.Resource) > 0 {
			body = rr.Resource
		}
		if j, err := gcs.ParseObj(body); err == nil {
			o.Gen, o.Metagen, o.MD5, o.Size, o.CT, o.Meta = j.Gen(), j.Metagen(), j.Md5Hash, j.Size, j.ContentType, j.Metadata
		}
	}
	return o
}

type c07Stats struct {
	heldInWindow  bool
	overlapWrites bool
}

func runC07Case(c *C07Case, ch sched.Chooser) (c07Stats, string) {
	var st c07Stats
	sc := sched.New()
	sc.DetectBlocking = true
	var jit int64
	controlled := ch != nil
	y := func(p string) {
		if controlled {
			sc.Yield(p, nil)
			return
		}
		if len(c.Jitter) > 0 {
			switch c.Jitter[int(atomic.AddInt64(&jit, 1))%len(c.Jitter)] {
			case 1:
				runtime.Gosched()
			case 2:
				time.Sleep(20 * time.Microsecond)
			}
		}
	}
	e, err := gcs.NewEmuWrap(c.Store, "", func(in gcsemu.Store) gcsemu.Store { return &yStore{in: in, y: y} })
	if err != nil {
		return st, "emulator start: " + err.Error()
	}
	defer e.Close()
	e.Inline = true // the scheduler identifies workers by goroutine
	if controlled {
		gcsutil.VerifYield = sc.Yield
		gcsemu.VerifYield = func(p string) { sc.Yield(p, nil) }
		defer func() { gcsutil.VerifYield = nil; gcsemu.VerifYield = nil }()
	}
	// setup (sequential, yields pass through because this goroutine is not a worker)
	r := gcs.NewRunner(e)
	srcData := map[string]string{"s1": "SOURCE-ONE", "s2": "source-two-longer"}
	for n, d := range srcData {
		if mis := r.Do(&gcs.Op{K: "upload", Bucket: "bkt", Name: n, Proto: "multipart", Data: gcs.Payload{K: "text"}, CT: "text/plain", Meta: map[string]string{"src": n}}); mis != "" {
			return st, "setup: " + mis
		}
		// overwrite with exact bytes through a media upload of known content
		resp := e.Do(&gcs.Req{Method: "POST", Path: "/upload/storage/v1/b/bkt/o?uploadType=multipart", Headers: map[string]string{"Content-Type": "multipart/related; boundary=XX"},
			Body: gcs.BS("--XX\r\nContent-Type: application/json\r\n\r\n{\"name\":\"" + n + "\",\"contentType\":\"text/plain\",\"metadata\":{\"src\":\"" + n + "\"}}\r\n--XX\r\nContent-Type: text/plain\r\n\r\n" + d + "\r\n--XX--\r\n")})
		if resp.Status != 200 {
			return st, fmt.Sprintf("setup upload of %s: HTTP %d %s", n, resp.Status, resp.Body)
		}
	}
	if resp := e.Do(&gcs.Req{Method: "POST", Path: "/upload/storage/v1/b/b2/o?uploadType=multipart", Headers: map[string]string{"Content-Type": "multipart/related; boundary=XX"},
		Body: gcs.BS("--XX\r\nContent-Type: application/json\r\n\r\n{\"name\":\"s1\",\"contentType\":\"text/plain\",\"metadata\":{\"src\":\"s1\"}}\r\n--XX\r\nContent-Type: text/plain\r\n\r\n" + srcData["s1"] + "\r\n--XX--\r\n")}); resp.Status != 200 {
		return st, fmt.Sprintf("setup upload of b2/s1: HTTP %d", resp.Status)
	}
	var hist []porcupine.Operation
	var tick int64
	var mu sync.Mutex
	rec := func(w int, in c07In, out c07Out, call, ret int64) {
		mu.Lock()
		hist = append(hist, porcupine.Operation{ClientId: w, Input: in, Output: out, Call: call, Return: ret})
		mu.Unlock()
	}
	var g0 int64
	upload := func(data, query string, proto string) *gcs.Resp {
		if proto == "media" {
			return e.Do(&gcs.Req{Method: "POST", Path: "/upload/storage/v1/b/bkt/o?uploadType=media&name=" + url.QueryEscape(c07T) + query, Headers: map[string]string{"Content-Type": "text/plain"}, Body: gcs.BS(data)})
		}
		return e.Do(&gcs.Req{Method: "POST", Path: "/upload/storage/v1/b/bkt/o?uploadType=multipart" + query, Headers: map[string]string{"Content-Type": "multipart/related; boundary=XX"},
			Body: gcs.BS("--XX\r\nContent-Type: application/json\r\n\r\n{\"name\":\"" + c07T + "\",\"contentType\":\"text/plain\"}\r\n--XX\r\nContent-Type: text/plain\r\n\r\n" + data + "\r\n--XX--\r\n")})
	}
	if c.Present {
		call := atomic.AddInt64(&tick, 1)
		resp := upload("initial", "", "media")
		out := parseOut(resp, false)
		if resp.Status != 200 {
			return st, fmt.Sprintf("setup upload of T: HTTP %d", resp.Status)
		}
		g0 = out.Gen
		rec(100, c07In{Req: C07Req{K: "upload"}, W: 100, Data: "initial"}, out, call, atomic.AddInt64(&tick, 1))
	} else {
		g0 = 1000
	}
	do := func(w, i int, rq C07Req) {
		in := c07In{Req: rq, W: w, G0: g0, SrcData: srcData}
		qv := ""
		switch rq.GM {
		case "g0":
			qv += "&ifGenerationMatch=" + strconv.FormatInt(g0, 10)
		case "zero":
			qv += "&ifGenerationMatch=0"
		case "stale":
			qv += "&ifGenerationMatch=" + strconv.FormatInt(g0-1, 10)
		}
		if rq.MM == "m0" {
			qv += "&ifMetagenerationMatch=1"
		}
		call := atomic.AddInt64(&tick, 1)
		var resp *gcs.Resp
		media := false
		switch rq.K {
		case "upload":
			in.Data = c07Payload(w, i, rq.Seed)
			resp = upload(in.Data, qv, rq.Proto)
		case "patch":
			in.Key, in.Val = fmt.Sprintf("k%d", w), fmt.Sprintf("v%d-%d", w, i)
			resp = e.Do(&gcs.Req{Method: "PATCH", Path: gcs.ObjPath("bkt", c07T) + "?" + strings.TrimPrefix(qv, "&"), Headers: map[string]string{"Content-Type": "application/json"},
				Body: gcs.BS(fmt.Sprintf(`{"metadata":{"%s":"%s"}%s}`, in.Key, in.Val, map[bool]string{true: `,"metageneration":"1"`}[rq.Echo]))})
		case "delete":
			resp = e.Do(&gcs.Req{Method: "DELETE", Path: gcs.ObjPath("bkt", c07T) + "?" + strings.TrimPrefix(qv, "&")})
		case "compose":
			var sos []string
			for _, s := range rq.Srcs {
				sos = append(sos, fmt.Sprintf(`{"name":%q}`, s))
			}
			resp = e.Do(&gcs.Req{Method: "POST", Path: gcs.ObjPath("bkt", c07T) + "/compose?" + strings.TrimPrefix(qv, "&"), Headers: map[string]string{"Content-Type": "application/json"},
				Body: gcs.BS(`{"sourceObjects":[` + strings.Join(sos, ",") + `],"destination":{"contentType":"text/composed"}}`)})
		case "copy":
			resp = e.Do(&gcs.Req{Method: "POST", Path: gcs.ObjPath("bkt", "s1") + "/rewriteTo/b/bkt/o/" + gcs.EscName(c07T), Body: "{}"})
		case "copyx": // from another bucket
			resp = e.Do(&gcs.Req{Method: "POST", Path: gcs.ObjPath("b2", "s1") + "/rewriteTo/b/bkt/o/" + gcs.EscName(c07T), Body: "{}"})
		case "getmeta":
			resp = e.Do(&gcs.Req{Method: "GET", Path: gcs.ObjPath("bkt", c07T)})
		case "getmedia":
			resp = e.Do(&gcs.Req{Method: "GET", Path: gcs.ObjPath("bkt", c07T) + "?alt=media"})
			media = true
		}
		out := parseOut(resp, media)
		rec(w, in, out, call, atomic.AddInt64(&tick, 1))
	}
	if controlled {
		for w := range c.Workers {
			w := w
			sc.Go(fmt.Sprintf("w%d", w), func(*sched.Worker) {
				for i, rq := range c.Workers[w] {
					do(w, i, rq)
				}
			})
		}
		sc.OnStep = func(w *sched.Worker) string {
			if w.Panic != nil {
				return fmt.Sprintf("panic in %s: %v\n%s", w.Name, w.Panic, w.PanicStk)
			}
			for _, ow := range sc.Workers() {
				if ow != w && !ow.Done() {
					switch ow.Point() {
					case "store.Add", "store.UpdateMeta", "store.Delete", "store.Copy", "filestore.Add.contentWritten", "filestore.Add.mtimeSet", "filestore.Delete.contentRemoved":
						st.heldInWindow = true
					}
				}
			}
			return ""
		}
		msg, err := sc.Run(ch)
		c.Choices = sc.Choices
		if msg != "" {
			return st, msg
		}
		if err != nil {
			if de, ok := err.(*sched.DeadlockError); ok {
				return st, "deadlock: " + de.Msg
			}
			return st, "HARNESS:" + err.Error()
		}
	} else {
		var wg sync.WaitGroup
		var gs vt.GoidSet
		for w := range c.Workers {
			w := w
			wg.Add(1)
			go func() {
				defer wg.Done()
				gs.Add()
				for i, rq := range c.Workers[w] {
					do(w, i, rq)
				}
			}()
		}
		done := make(chan struct{})
		go func() { wg.Wait(); close(done) }()
		// the requests run on the workers' own stacks (inline): all of them blocked = deadlock, some running = slow machine
		if mis := vt.Await(done, 120*time.Second, gs.IDs, "concurrent requests"); mis != "" {
			return st, "deadlock: " + mis
		}
	}
	// final sequential reads
	for i, k := range []string{"getmeta", "getmedia"} {
		do(200, i, C07Req{K: k})
	}
	for _, h := range hist {
		if p := h.Output.(c07Out).Panic; p != "" {
			return st, "panic: " + p
		}
	}
	isW := func(k string) bool { return k != "getmeta" && k != "getmedia" }
	for i := range hist {
		for j := i + 1; j < len(hist); j++ {
			a, b := hist[i], hist[j]
			if a.ClientId != b.ClientId && isW(a.Input.(c07In).Req.K) && isW(b.Input.(c07In).Req.K) && a.Call < b.Return && b.Call < a.Return {
				st.overlapWrites = true
			}
		}
	}
	res := porcupine.CheckOperationsTimeout(c07Model, hist, 20*time.Second)
	if res == porcupine.Illegal {
		sort.Slice(hist, func(i, j int) bool { return hist[i].Call < hist[j].Call })
		var sb strings.Builder
		sb.WriteString("history on object " + c07T + " has no serial explanation:\n")
		for _, h := range hist {
			fmt.Fprintf(&sb, "  [%d,%d] %s\n", h.Call, h.Return, c07Model.DescribeOperation(h.Input, h.Output))
		}
		return st, sb.String()
	}
	return st, ""
}

func genC07(free bool) *rapid.Generator[C07Case] {
	return rapid.Custom(func(t *rapid.T) C07Case {
		c := C07Case{Store: rapid.SampledFrom(gcs.Stores).Draw(t, "store"), Present: rapid.IntRange(0, 3).Draw(t, "present") > 0}
		req := rapid.Custom(func(t *rapid.T) C07Req {
			r := C07Req{K: rapid.SampledFrom([]string{"upload", "upload", "upload", "patch", "patch", "delete", "compose", "copy", "copyx", "getmeta", "getmedia", "getmedia"}).Draw(t, "k")}
			switch r.K {
			case "upload":
				r.Proto = rapid.SampledFrom([]string{"media", "multipart"}).Draw(t, "proto")
				r.Seed = rapid.IntRange(0, 9).Draw(t, "seed")
				r.GM = rapid.SampledFrom([]string{"", "g0", "g0", "zero", "stale"}).Draw(t, "gm")
				r.MM = rapid.SampledFrom([]string{"", "", "m0"}).Draw(t, "mm")
			case "patch":
				r.MM = rapid.SampledFrom([]string{"", "m0", "m0"}).Draw(t, "mm")
				r.GM = rapid.SampledFrom([]string{"", "", "g0"}).Draw(t, "gm")
				r.Echo = rapid.Bool().Draw(t, "echo") // read-modify-write client sending back the resource it read
			case "delete":
				r.GM = rapid.SampledFrom([]string{"", "g0"}).Draw(t, "gm")
			case "compose":
				r.Srcs = rapid.SliceOfN(rapid.SampledFrom([]string{"s1", "s2", c07T}), 1, 3).Draw(t, "srcs")
				r.GM = rapid.SampledFrom([]string{"", "g0", "zero"}).Draw(t, "gm")
			}
			return r
		})
		nw := rapid.IntRange(2, 4).Draw(t, "workers")
		for w := 0; w < nw; w++ {
			c.Workers = append(c.Workers, rapid.SliceOfN(req, 1, 2).Draw(t, fmt.Sprintf("w%d", w)))
		}
		if free {
			c.Jitter = rapid.SliceOfN(rapid.IntRange(0, 2), 1, 16).Draw(t, "jitter")
		} else {
			c.Choices = rapid.SliceOfN(rapid.IntRange(0, 4), 0, 120).Draw(t, "choices")
		}
		return c
	})
}

func runC07Sched(c C07Case, ev *vt.Ev) *vt.Failure {
	cc := c
	st, mis := runC07Case(&cc, &sched.ListChooser{List: c.Choices})
	if strings.HasPrefix(mis, "HARNESS:") {
		panic(mis)
	}
	if mis != "" {
		return &vt.Failure{Property: "C07", Msg: mis}
	}
	var ls []string
	if st.heldInWindow {
		ls = append(ls, "held-between-check-and-store-mutation")
	}
	ev.Case(c, st.heldInWindow && st.overlapWrites, append(ls, "store="+c.Store)...)
	return nil
}

func TestC07Sched(t *testing.T) {
	vt.Prop[C07Case]{ID: "C07", Test: "TestC07Sched",
		Rule: "owned schedules: 2-4 concurrent HTTP clients x 1-2 requests on ONE object (uploads media/multipart conditioned on the initial generation / non-existence / metageneration, patches with a distinct metadata key per client (half of them echoing the metageneration they read in the body), deletes, composes from {S1,S2,T}, copies S1->T within the bucket and from another bucket, metadata and media GETs), both stores; yield points at every Store method (decorator), every lock-map step (enabledness known) and inside the file store's Add/Delete; rapid-drawn shrinkable choice list; the whole history incl. final reads is checked with porcupine against a sequential object model (conditions judged at the linearization point, each write response must describe the object that request created, each read must equal one state in full); non-trivial = a request was parked between its precondition read and its store mutation (or inside filestore.Add/Delete) while another client ran, and two mutations overlapped",
		Gen:  genC07(false), Run: runC07Sched}.Main(t)
}

func runC07Race(c C07Case, ev *vt.Ev) *vt.Failure {
	cc := c
	vt.WriteCurrent("TestC07Race", "C07", c)
	st, mis := runC07Case(&cc, nil)
	vt.ClearCurrent("TestC07Race")
	if mis != "" {
		return &vt.Failure{Property: "C07", Msg: mis}
	}
	ev.Case(c, st.overlapWrites, "store="+c.Store)
	return nil
}

func TestC07Race(t *testing.T) {
	vt.Prop[C07Case]{ID: "C07", Test: "TestC07Race",
		Rule: "free-running variant of TestC07Sched under the Go race detector (real goroutines, drawn jitter at every Store access); same serialisability oracle; non-trivial = two mutations of different clients overlapped",
		Gen:  genC07(true), Run: runC07Race}.Main(t)
}
