package gcschecks

import (
	"testing"

	"pgregory.net/rapid"

	"verif/internal/gcs"
	"verif/internal/vt"
)

// C02 — what is uploaded is what is served, until overwritten or deleted.

func genC02() *rapid.Generator[SeqCase] {
	return rapid.Custom(func(t *rapid.T) SeqCase {
		c := SeqCase{Store: rapid.SampledFrom(gcs.Stores).Draw(t, "store")}
		pool := append(append([]string{}, gcs.AllNames...), gcs.HostileNames...) // URL-parser-hostile names (G6)
		if c.Store == "mem" {
			pool = append(pool, gcs.MemOnlyNames...) // names no file can have
		}
		names := rapid.SliceOfNDistinct(rapid.SampledFrom(pool), 1, 4, func(s string) string { return s }).Draw(t, "names")
		if rapid.IntRange(0, 7).Draw(t, "nest") == 0 {
			names = rapid.SliceOfNDistinct(rapid.SampledFrom(gcs.NestNames), 2, 4, func(s string) string { return s }).Draw(t, "nestnames")
		}
		// names in directory conflict ("top" / "top/mid/leaf", "b" / "b/x/o/y") may be drawn together: the runner
		// skips a request whose name is not representable as a file at that moment
		buckets := gcs.BucketPool[:rapid.IntRange(1, 2).Draw(t, "nbuckets")]
		prefixes := gcs.PrefixNames(names)
		step := rapid.Custom(func(t *rapid.T) gcs.Op {
			switch k := rapid.IntRange(0, 21).Draw(t, "kind"); {
			case k >= 20:
				if len(prefixes) == 0 {
					return gcs.Op{K: "getmeta", Bucket: rapid.SampledFrom(buckets).Draw(t, "bucket"), Name: rapid.SampledFrom(names).Draw(t, "name")}
				}
				// a request on a directory of the file store (a name that is no object): must leave every object alone
				return gcs.Op{K: "probe", Bucket: rapid.SampledFrom(buckets).Draw(t, "bucket"), Name: rapid.SampledFrom(prefixes).Draw(t, "name"),
					Form: rapid.SampledFrom([]string{"delete", "delete", "meta", "media", "patch"}).Draw(t, "form")}
			case k < 11:
				return gcs.GenUpload(buckets, names, vt.Thorough()).Draw(t, "upload")
			case k < 14:
				return gcs.Op{K: "delete", Bucket: rapid.SampledFrom(buckets).Draw(t, "bucket"), Name: rapid.SampledFrom(names).Draw(t, "name")}
			case k < 19:
				return gcs.Op{K: "get", Bucket: rapid.SampledFrom(buckets).Draw(t, "bucket"), Name: rapid.SampledFrom(names).Draw(t, "name"),
					Form: rapid.SampledFrom([]string{"json", "download", "public"}).Draw(t, "form"), RawSlash: rapid.Bool().Draw(t, "rawslash")}
			default:
				return gcs.Op{K: "getmeta", Bucket: rapid.SampledFrom(buckets).Draw(t, "bucket"), Name: rapid.SampledFrom(names).Draw(t, "name")}
			}
		})
		c.Steps = rapid.SliceOfN(step, 1, 25).Draw(t, "steps")
		return c
	})
}

func runC02(c SeqCase, ev *vt.Ev) *vt.Failure {
	r, f := runSeq("C02", c)
	if f != nil {
		return f
	}
	nontrivial := r.ResumableMulti > 0 || (r.Writes >= 2 && r.Deletes+r.AdjacentWrites > 0 && r.M.NumObjects() >= 1)
	ev.Case(c, nontrivial, labelsOf(r, "store="+c.Store)...)
	return nil
}

func TestC02(t *testing.T) {
	vt.Prop[SeqCase]{ID: "C02", Test: "TestC02",
		Rule: "rapid-generated request programs (1-25 steps) on the memory and file stores: uploads by media / multipart / resumable (drawn chunkings: next-k, re-sent and partially overlapping ranges, status queries, zero-byte finalisation, PUT/POST, X-Guploader-No-308, gzip request bodies, declared MD5 ok/wrong/not-base64, content types), overwrites, deletes, downloads through the JSON, /download and public URL forms over hostile object names, plus DELETE/GET/PATCH requests on '/'-prefixes of object names (directories of the file store, never objects); after EVERY step every object, deleted name and listing is compared with a byte/metadata model; non-trivial = a resumable upload of >=4 requests with a re-sent range or status query, or >=2 writes with an overwrite/delete while other objects exist",
		Gen:  genC02(), Run: runC02}.Main(t)
}
