package gcschecks

import (
	"fmt"
	"testing"

	"pgregory.net/rapid"

	"verif/internal/gcs"
	"verif/internal/vt"
)

// C04 — preconditions gate mutations exactly; a failed one changes nothing.

type C04Enum struct {
	Index int64     `json:"index"`
	Store string    `json:"store"`
	State string    `json:"state"` // absent | present | patched | recreated
	Op    string    `json:"opkind"`
	Conds gcs.Conds `json:"conds"`
	Src1  gcs.Cond  `json:"src1"`
	Src2  gcs.Cond  `json:"src2"`
}

var c04GM = []string{"", "cur", "other", "zero", "bad"}
var c04X = []string{"", "cur", "other", "bad"}
var c04States = []string{"absent", "present", "patched", "recreated"}
var c04Ops = []string{"media", "multipart", "resumable", "patch", "delete", "compose"}
var c04Src = []string{"", "cur", "other"}

const c04Main = 2 * 4 * 6 * 320
const c04Extra = 2 * 4 * 9 * 3
const c04Space = c04Main + c04Extra

func c04At(i int64) C04Enum {
	c := C04Enum{Index: i}
	if i < c04Main {
		c.Store = gcs.Stores[i%2]
		i /= 2
		c.State = c04States[i%4]
		i /= 4
		c.Op = c04Ops[i%6]
		i /= 6
		c.Conds.GM.K = c04GM[i%5]
		i /= 5
		c.Conds.GNM.K = c04X[i%4]
		i /= 4
		c.Conds.MM.K = c04X[i%4]
		i /= 4
		c.Conds.MNM.K = c04X[i%4]
		return c
	}
	i -= c04Main
	c.Op = "compose"
	c.Store = gcs.Stores[i%2]
	i /= 2
	c.State = c04States[i%4]
	i /= 4
	c.Src1.K = c04Src[i%3]
	i /= 3
	c.Src2.K = c04Src[i%3]
	i /= 3
	c.Conds.GM.K = []string{"", "cur", "other"}[i%3]
	return c
}

const c04T = "t.txt"

func (c C04Enum) program() []gcs.Op {
	up := func(name string, seed int) gcs.Op {
		return gcs.Op{K: "upload", Bucket: "bkt", Name: name, Proto: "multipart", Data: gcs.Payload{K: "text", Seed: seed, N: seed}, CT: "text/plain", Meta: map[string]string{"k1": "v"}}
	}
	steps := []gcs.Op{up("by1", 1), up("dir/by2", 2)}
	switch c.State {
	case "present":
		steps = append(steps, up(c04T, 3))
	case "patched":
		steps = append(steps, up(c04T, 3),
			gcs.Op{K: "patch", Bucket: "bkt", Name: c04T, MetaSet: map[string]string{"k2": "p"}},
			gcs.Op{K: "patch", Bucket: "bkt", Name: c04T, Set: map[string]string{"cacheControl": "no-cache"}})
	case "recreated":
		steps = append(steps, up(c04T, 3), gcs.Op{K: "delete", Bucket: "bkt", Name: c04T}, up(c04T, 4))
	}
	var op gcs.Op
	switch c.Op {
	case "media", "multipart":
		op = gcs.Op{K: "upload", Bucket: "bkt", Name: c04T, Proto: c.Op, Data: gcs.Payload{K: "text", Seed: 9, N: 5}, CT: "text/x-new"}
	case "resumable":
		op = gcs.Op{K: "upload", Bucket: "bkt", Name: c04T, Proto: "resumable", Data: gcs.Payload{K: "text", Seed: 9, N: 30}, CT: "text/x-new",
			Chunks: []gcs.Chunk{{K: "next", N: 16}, {K: "query"}}}
	case "patch":
		op = gcs.Op{K: "patch", Bucket: "bkt", Name: c04T, MetaSet: map[string]string{"k3": "new"}}
	case "delete":
		op = gcs.Op{K: "delete", Bucket: "bkt", Name: c04T}
	case "compose":
		op = gcs.Op{K: "compose", Bucket: "bkt", Name: c04T, CT: "text/composed", Srcs: []gcs.Src{{Name: "by1", GM: c.Src1}, {Name: "dir/by2", GM: c.Src2}}}
	}
	op.Conds = c.Conds
	return append(steps, op)
}

func runC04Enum(c C04Enum, ev *vt.Ev) *vt.Failure {
	prog := c.program()
	r, f := runSeq("C04", SeqCase{Store: c.Store, Steps: prog})
	if f != nil {
		f.Msg = fmt.Sprintf("scenario #%d (state=%s op=%s conds=%+v src=%s/%s): %s", c.Index, c.State, c.Op, c.Conds, c.Src1.K, c.Src2.K, f.Msg)
		return f
	}
	failed := r.Failed > 0
	ev.Case(c, c.Conds.Count() >= 2 || failed, labelsOf(r, "store="+c.Store, "state="+c.State, "op="+c.Op, fmt.Sprintf("request-failed=%v", failed))...)
	return nil
}

func TestC04Enum(t *testing.T) {
	p := vt.Prop[C04Enum]{ID: "C04", Test: "TestC04Enum",
		Rule: "complete enumeration of the precondition truth table: ifGenerationMatch in {unset,=cur,!=cur,0,unparsable} x the other three in {unset,=cur,!=cur,unparsable} (320 sets) x object state {absent, present, present at metageneration 3, deleted-and-recreated} x operation {media, multipart, resumable (conditions at initiation, judged at completion), patch, delete, compose-as-destination} x {memory,file} store = 15 360 scenarios, plus 216 compose scenarios with per-source ifGenerationMatch; each on a fresh emulator with two bystander objects; status must follow the stated table and after a failure every object (bytes, metadata, generation, metageneration) and the listing must equal the model's snapshot; thorough = all (exhaustive), quick = residue class index mod 4 == VERIF_SEED mod 4; non-trivial = >=2 conditions supplied or the request failed",
		Run:  runC04Enum}
	if vt.Replay() != "" {
		p.Gen = rapid.Just(C04Enum{})
		p.Main(t)
		return
	}
	ev := vt.NewEv(p.ID, p.Test, p.Rule)
	defer ev.Flush()
	stride, offset := int64(4), vt.Seed()%4
	if vt.Thorough() {
		stride, offset = 1, 0
		ev.Exhaustive(c04Space)
	}
	total := (c04Space - offset + stride - 1) / stride
	for j := int64(vt.Shard()); j < total; j += int64(vt.NShards()) {
		c := c04At(j*stride + offset)
		if f := p.Run(c, ev); f != nil {
			vt.WriteFail(p.Test, c, f)
			t.Fatalf("%s", f.Msg)
		}
	}
}

// ---------------------------------------------------------------- random histories

// genHistory: writes / patches / reads / failures / deletes on few names, with
// preconditions on condPct% of the mutating requests.
func genHistory(condPct int, ro bool, minSteps, maxSteps int) *rapid.Generator[SeqCase] {
	return rapid.Custom(func(t *rapid.T) SeqCase {
		c := SeqCase{Store: rapid.SampledFrom(gcs.Stores).Draw(t, "store")}
		names := rapid.SliceOfNDistinct(rapid.SampledFrom(gcs.AllNames), 1, 4, func(s string) string { return s }).Draw(t, "names")
		if rapid.IntRange(0, 5).Draw(t, "nest") == 0 {
			// names in each other's way: exercises the sequence "delete what is below / above, then use the name"
			names = rapid.SliceOfNDistinct(rapid.SampledFrom(gcs.NestNames), 2, 4, func(s string) string { return s }).Draw(t, "nestnames")
		}
		buckets := gcs.BucketPool[:rapid.IntRange(1, 2).Draw(t, "nbuckets")]
		step := rapid.Custom(func(t *rapid.T) gcs.Op {
			bucket := func() string { return rapid.SampledFrom(buckets).Draw(t, "bucket") }
			name := func() string { return rapid.SampledFrom(names).Draw(t, "name") }
			switch k := rapid.IntRange(0, 19).Draw(t, "kind"); {
			case k < 8:
				op := gcs.GenUpload(buckets, names, false).Draw(t, "upload")
				op.Conds = gcs.GenConds(condPct).Draw(t, "conds")
				if rapid.IntRange(0, 3).Draw(t, "md5") > 0 && (op.MD5 == "wrong" || op.MD5 == "notb64") {
					op.MD5 = "ok"
				}
				return op
			case k < 12:
				return gcs.GenPatch(buckets, names, condPct, ro).Draw(t, "patch")
			case k < 14:
				return gcs.Op{K: "delete", Bucket: bucket(), Name: name(), Conds: gcs.GenConds(condPct).Draw(t, "conds")}
			case k < 16:
				op := gcs.Op{K: "compose", Bucket: bucket(), Name: name(), CT: rapid.SampledFrom(gcs.CTPool).Draw(t, "ct"), Conds: gcs.GenConds(condPct).Draw(t, "conds")}
				for i, n := 0, rapid.IntRange(1, 3).Draw(t, "nsrc"); i < n; i++ {
					s := gcs.Src{Name: name()}
					if rapid.IntRange(0, 3).Draw(t, "srccond") == 0 {
						s.GM = gcs.Cond{K: rapid.SampledFrom([]string{"cur", "other"}).Draw(t, "sgm")}
					}
					op.Srcs = append(op.Srcs, s)
				}
				return op
			case k < 17:
				return gcs.Op{K: "copy", Bucket: bucket(), Name: name(), DstBucket: bucket(), DstName: name()}
			case k < 18:
				return gcs.Op{K: "get", Bucket: bucket(), Name: name(), Form: rapid.SampledFrom([]string{"json", "download", "public"}).Draw(t, "form")}
			case k < 19:
				return gcs.Op{K: "list", Bucket: bucket(), Prefix: rapid.SampledFrom([]string{"", "a", "dir/", "d", "x/"}).Draw(t, "prefix"),
					Delim: rapid.SampledFrom([]string{"", "/", "."}).Draw(t, "delim"), Max: rapid.SampledFrom([]string{"", "1", "2"}).Draw(t, "max")}
			default:
				return gcs.Op{K: "getmeta", Bucket: bucket(), Name: name()}
			}
		})
		c.Steps = rapid.SliceOfN(step, minSteps, maxSteps).Draw(t, "steps")
		return c
	})
}

func runC04(c SeqCase, ev *vt.Ev) *vt.Failure {
	r, f := runSeq("C04", c)
	if f != nil {
		return f
	}
	multi := false
	for _, s := range c.Steps {
		if s.Conds.Count() >= 2 {
			multi = true
		}
	}
	ev.Case(c, multi && r.Failed > 0 && r.M.NumObjects() >= 2, labelsOf(r, "store="+c.Store)...)
	return nil
}

func TestC04(t *testing.T) {
	vt.Prop[SeqCase]{ID: "C04", Test: "TestC04",
		Rule: "rapid-generated histories (5-40 requests: uploads by every protocol, patches, deletes, composes, copies, reads) where 60% of the mutating requests carry drawn precondition sets resolved against the state reached so far (=current, !=current, 0, a previously used generation, unparsable), a quarter of the patch bodies also carrying read-only fields (generation/metageneration/size/md5Hash, among them the value of the request's own precondition); same truth table and snapshot-after-failure oracle; non-trivial = a request with >=2 conditions, >=1 failed request and >=2 objects alive at the end",
		Gen:  genHistory(60, true, 5, 40), Run: runC04}.Main(t)
}
