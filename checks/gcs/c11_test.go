package gcschecks

import (
	"fmt"
	"sort"
	"strings"
	"testing"

	"pgregory.net/rapid"

	"verif/internal/gcs"
	"verif/internal/vt"
)

// C11 — listing is complete, duplicate-free, ordered for any prefix/delimiter/page.

var c11UMem = []string{"a", "a/", "a/b", "a/b/c", "a.txt", "a-b", "a0", "ab", "b", "a//d"}
var c11UFile = []string{"a/b", "a/c/d", "a/c/e", "a.txt", "a-b/x", "a0", "ab", "b", "c/d", "c.d"}
var c11Delims = []string{"", "/", ".", "a", "/c", "//"}
var c11Max = []int{1, 2, 3, 1000}

type C11Enum struct {
	Index int64    `json:"index"`
	Store string   `json:"store"`
	Univ  string   `json:"univ"` // mem | file
	Names []string `json:"names"`
}

// subsets of size <= 6 of a 10-element universe: 848
func c11Subsets(u []string) [][]string {
	var out [][]string
	for mask := 0; mask < 1<<len(u); mask++ {
		var s []string
		for i := range u {
			if mask&(1<<i) != 0 {
				s = append(s, u[i])
			}
		}
		if len(s) <= 6 {
			out = append(out, s)
		}
	}
	return out
}

func c11Prefixes(u []string) []string {
	seen := map[string]bool{"": true, "zz": true}
	for _, n := range u {
		for i := 1; i < len(n); i++ {
			seen[n[:i]] = true
		}
	}
	var out []string
	for p := range seen {
		out = append(out, p)
	}
	sort.Strings(out)
	return out
}

var (
	c11SubMem, c11SubFile = c11Subsets(c11UMem), c11Subsets(c11UFile)
	c11PreMem, c11PreFile = c11Prefixes(c11UMem), c11Prefixes(c11UFile)
)

// configurations: (mem store, U_mem), (mem store, U_file), (file store, U_file)
func c11Space() int64 { return int64(len(c11SubMem) + 2*len(c11SubFile)) }

func c11At(i int64) C11Enum {
	switch {
	case i < int64(len(c11SubMem)):
		return C11Enum{Index: i, Store: "mem", Univ: "mem", Names: c11SubMem[i]}
	case i < int64(len(c11SubMem)+len(c11SubFile)):
		return C11Enum{Index: i, Store: "mem", Univ: "file", Names: c11SubFile[i-int64(len(c11SubMem))]}
	default:
		return C11Enum{Index: i, Store: "file", Univ: "file", Names: c11SubFile[i-int64(len(c11SubMem)+len(c11SubFile))]}
	}
}

func c11Load(store string, names []string) (*gcs.Emu, *vt.Failure) {
	e, err := gcs.NewEmu(store, "")
	if err != nil {
		return nil, vt.Failf("C11", "emulator start: %v", err)
	}
	if err := e.G.InitBucket("bkt"); err != nil {
		e.Close()
		return nil, vt.Failf("C11", "InitBucket: %v", err)
	}
	r := gcs.NewRunner(e)
	for i, n := range names {
		if mis := r.Do(&gcs.Op{K: "upload", Bucket: "bkt", Name: n, Proto: "media", Data: gcs.Payload{K: "text", Seed: i}, CT: "text/plain"}); mis != "" {
			e.Close()
			return nil, vt.Failf("C11", "setup upload of %q: %s", n, mis)
		}
	}
	return e, nil
}

func runC11Enum(c C11Enum, ev *vt.Ev) *vt.Failure {
	e, f := c11Load(c.Store, c.Names)
	if f != nil {
		return f
	}
	defer e.Close()
	prefixes := c11PreMem
	if c.Univ == "file" {
		prefixes = c11PreFile
	}
	base := gcs.MetaGetter(e, "bkt")
	metaOf := func(n string) map[string]interface{} {
		if !gcs.URLCarries(n) {
			return nil
		}
		return base(n)
	}
	for _, p := range prefixes {
		for _, d := range c11Delims {
			for _, mx := range c11Max {
				sp := gcs.ListSpec{Prefix: p, Delim: d, Max: mx}
				var mo func(string) map[string]interface{}
				if mx == 1000 && p == "" {
					mo = func(n string) map[string]interface{} {
						if m := metaOf(n); m != nil {
							return m
						}
						return nil
					}
				}
				st, mis := checkListingMaybeMeta(e, c.Names, sp, mo)
				if mis != "" {
					return vt.Failf("C11", "%s store, names %q, prefix=%q delimiter=%q maxResults=%d: %s", c.Store, c.Names, p, d, mx, mis)
				}
				sub := struct {
					C C11Enum
					S gcs.ListSpec
				}{c, sp}
				ev.Case(sub, st.Pages >= 2 || st.Collapsed, fmt.Sprintf("store=%s", c.Store), fmt.Sprintf("multi-page=%v", st.Pages >= 2), fmt.Sprintf("collapsed=%v", st.Collapsed))
			}
		}
	}
	return nil
}

// checkListingMaybeMeta compares items with metadata GETs only for names a URL can carry.
func checkListingMaybeMeta(e *gcs.Emu, names []string, sp gcs.ListSpec, mo func(string) map[string]interface{}) (gcs.ListStats, string) {
	if mo == nil {
		return gcs.CheckListing(e, "bkt", names, sp, nil)
	}
	// names that cannot travel in a URL path are compared without the GET
	for _, n := range names {
		if !gcs.URLCarries(n) {
			return gcs.CheckListing(e, "bkt", names, sp, nil)
		}
	}
	return gcs.CheckListing(e, "bkt", names, sp, mo)
}

func TestC11Enum(t *testing.T) {
	p := vt.Prop[C11Enum]{ID: "C11", Test: "TestC11Enum",
		Rule: "enumeration: all subsets of size <=6 (848) of two 10-name universes (U_mem incl. 'a', 'a/', 'a//d' on the memory store; file-representable U_file on both stores) x every proper prefix of a universe name plus '' and 'zz' x delimiter in {'', '/', '.', 'a', '/c', '//'} x maxResults in {1,2,3,1000}; every combination is paginated to the end and compared with the set/sort definition (items exactly once in bytewise order, each collapsed prefix once, page size bound, no empty non-final page, items equal to metadata GET); thorough = all (exhaustive), quick = subsets with index mod 6 == VERIF_SEED mod 6; non-trivial = >=2 pages or a delimiter collapsing >=2 names; distinct by (store, set, prefix, delimiter, maxResults)",
		Run:  runC11Enum}
	if vt.Replay() != "" {
		p.Gen = rapid.Just(C11Enum{})
		p.Main(t)
		return
	}
	ev := vt.NewEv(p.ID, p.Test, p.Rule)
	defer ev.Flush()
	space := c11Space()
	stride, offset := int64(6), vt.Seed()%6
	if vt.Thorough() {
		stride, offset = 1, 0
		ev.Exhaustive(space * int64(len(c11PreMem)) * int64(len(c11Delims)*len(c11Max)))
	}
	total := (space - offset + stride - 1) / stride
	for j := int64(vt.Shard()); j < total; j += int64(vt.NShards()) {
		c := c11At(j*stride + offset)
		if f := p.Run(c, ev); f != nil {
			vt.WriteFail(p.Test, c, f)
			t.Fatalf("%s", f.Msg)
		}
	}
}

// ---------------------------------------------------------------- random part

type C11Case struct {
	Store string         `json:"store"`
	Names []string       `json:"names"`
	Lists []gcs.ListSpec `json:"lists"`
	Bad   []string       `json:"bad,omitempty"` // malformed parameter probes
}

var c11Segs = []string{"a", "b", "c", "-", ".", "0", " ", "ü", "ab", "a.b", "a-"}

func genC11Name(fileSafe bool) *rapid.Generator[string] {
	return rapid.Custom(func(t *rapid.T) string {
		n := rapid.IntRange(1, 4).Draw(t, "depth")
		var segs []string
		for i := 0; i < n; i++ {
			s := rapid.SampledFrom(c11Segs).Draw(t, "seg")
			if fileSafe && (s == "." || s == " ") {
				s = "x" + s
			}
			segs = append(segs, s)
		}
		return strings.Join(segs, "/")
	})
}

// fileRepresentable: no name is a directory prefix of another.
func fileRepresentable(names []string) bool {
	set := map[string]bool{}
	for _, n := range names {
		set[n] = true
	}
	for _, n := range names {
		parts := strings.Split(n, "/")
		for i := 1; i < len(parts); i++ {
			if set[strings.Join(parts[:i], "/")] {
				return false
			}
		}
	}
	return true
}

func genC11() *rapid.Generator[C11Case] {
	return rapid.Custom(func(t *rapid.T) C11Case {
		c := C11Case{Store: rapid.SampledFrom(gcs.Stores).Draw(t, "store")}
		names := rapid.SliceOfNDistinct(genC11Name(true), 0, 40, func(s string) string { return s }).Draw(t, "names")
		// make the set file-representable by construction: drop names that are a directory of another
		sort.Strings(names)
		var keep []string
		for _, n := range names {
			if fileRepresentable(append(append([]string{}, keep...), n)) {
				keep = append(keep, n)
			}
		}
		c.Names = keep
		spec := rapid.Custom(func(t *rapid.T) gcs.ListSpec {
			sp := gcs.ListSpec{Max: rapid.SampledFrom([]int{0, 1, 2, 3, 4, 5, 6, 7}).Draw(t, "max")}
			if len(c.Names) > 0 && rapid.IntRange(0, 3).Draw(t, "pfx") > 0 {
				n := rapid.SampledFrom(c.Names).Draw(t, "pn")
				sp.Prefix = n[:rapid.IntRange(0, len(n)).Draw(t, "plen")]
			} else {
				sp.Prefix = rapid.SampledFrom([]string{"", "a", "zz", "a/", "b/c"}).Draw(t, "pfx2")
			}
			sp.Delim = rapid.SampledFrom([]string{"", "/", "/", ".", "a", "/a", "//", "-", "a/"}).Draw(t, "delim")
			return sp
		})
		c.Lists = rapid.SliceOfN(spec, 1, 8).Draw(t, "lists")
		c.Bad = rapid.SliceOfN(rapid.SampledFrom([]string{"pageToken=%%%", "pageToken=!!!", "pageToken=AAAA", "maxResults=0", "maxResults=-1", "maxResults=x", "maxResults=18446744073709551616", "nobucket"}), 0, 2).Draw(t, "bad")
		return c
	})
}

func runC11(c C11Case, ev *vt.Ev) *vt.Failure {
	e, f := c11Load(c.Store, c.Names)
	if f != nil {
		return f
	}
	defer e.Close()
	nontrivial := false
	labels := map[string]bool{"store=" + c.Store: true}
	mo := gcs.MetaGetter(e, "bkt")
	for _, sp := range c.Lists {
		st, mis := gcs.CheckListing(e, "bkt", c.Names, sp, mo)
		if mis != "" {
			return vt.Failf("C11", "%s store, %d names %q, prefix=%q delimiter=%q maxResults=%d: %s", c.Store, len(c.Names), c.Names, sp.Prefix, sp.Delim, sp.Max, mis)
		}
		if st.Pages >= 2 {
			nontrivial = true
			labels["multi-page"] = true
		}
		if st.Collapsed {
			nontrivial = true
			labels["delimiter-collapsed-names"] = true
		}
		if len(sp.Delim) > 1 {
			labels["multi-char-delimiter"] = true
		}
	}
	for _, b := range c.Bad {
		path := "/storage/v1/b/bkt/o?" + b
		want := 400
		if b == "nobucket" {
			path, want = "/storage/v1/b/no-such-bucket/o", 404
		}
		resp := e.Do(&gcs.Req{Method: "GET", Path: path})
		if resp.Panic != "" {
			return vt.Failf("C11", "listing with %s: panic: %s", b, resp.Panic)
		}
		if b == "pageToken=AAAA" && resp.Status == 200 {
			continue // base64 of non-proto bytes: 400 or 200 accepted
		}
		if resp.Status != want {
			return vt.Failf("C11", "listing with %s: HTTP %d, want %d", b, resp.Status, want)
		}
		labels["malformed-parameter"] = true
	}
	var ls []string
	for l := range labels {
		ls = append(ls, l)
	}
	ev.Case(c, nontrivial, ls...)
	return nil
}

func TestC11(t *testing.T) {
	vt.Prop[C11Case]{ID: "C11", Test: "TestC11",
		Rule: "rapid-generated buckets of 0-40 names from a segment grammar ({a,b,c,-,.,0,space,u-umlaut,...}, depth<=4, file-representable by construction) on both stores x 1-8 listings with prefixes cut from real names, delimiters incl. multi-character ones, page sizes 1-7 and default, plus malformed pageToken/maxResults and a missing bucket; same definition-based oracle incl. item == metadata GET; non-trivial = >=2 pages or a delimiter collapsing >=2 names",
		Gen:  genC11(), Run: runC11}.Main(t)
}
