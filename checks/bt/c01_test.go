package btchecks

import (
	"testing"

	"pgregory.net/rapid"

	"verif/internal/bt"
	"verif/internal/vt"
)

// C01 — reads reflect exactly the mutations applied.

type C01Case struct {
	Engine string   `json:"engine"`
	Fams   []string `json:"fams"`
	Steps  []bt.Op  `json:"steps"`
}

func genC01() *rapid.Generator[C01Case] {
	return rapid.Custom(func(t *rapid.T) C01Case {
		c := C01Case{Engine: rapid.SampledFrom(bt.Engines).Draw(t, "engine")}
		nf := rapid.IntRange(1, 3).Draw(t, "nfams")
		c.Fams = bt.AllFams[:nf]
		// a small key set per case so that rows are revisited
		keys := rapid.SliceOfNDistinct(bt.GenKey(), 1, 5, func(b bt.BS) bt.BS { return b }).Draw(t, "keys")
		quals := bt.GenQuals().Draw(t, "quals")
		invalidPct := rapid.SampledFrom([]int{0, 5, 20}).Draw(t, "invalidPct")
		step := rapid.Custom(func(t *rapid.T) bt.Op {
			op := bt.Op{Table: tbl, Clock: bt.I64(bt.GenClock().Draw(t, "clock"))}
			if rapid.IntRange(0, 3).Draw(t, "multi") == 0 {
				op.K = "MutateRows"
				op.Entries = rapid.SliceOfN(rapid.Custom(func(t *rapid.T) bt.Entry {
					return bt.Entry{Key: rapid.SampledFrom(keys).Draw(t, "key"), Muts: bt.GenMuts(c.Fams, 0, 6, invalidPct, quals...).Draw(t, "muts")}
				}), 1, 4).Draw(t, "entries")
			} else {
				op.K = "MutateRow"
				op.Key = rapid.SampledFrom(keys).Draw(t, "key")
				op.Muts = bt.GenMuts(c.Fams, 0, 6, invalidPct, quals...).Draw(t, "muts")
			}
			return op
		})
		c.Steps = rapid.SliceOfN(step, 1, 40).Draw(t, "steps")
		return c
	})
}

func runC01(c C01Case, ev *vt.Ev) *vt.Failure {
	s, err := bt.NewSrv(c.Engine, "")
	if err != nil {
		return vt.Failf("C01", "server start: %v", err)
	}
	defer s.Close()
	m := bt.NewModel()
	if f := mustCreate(s, m, tbl, c.Fams); f != nil {
		f.Property = "C01"
		return f
	}
	mt := m.Tables[(&bt.Op{Table: tbl}).FullName()]
	touched := map[bt.BS]bool{}
	var order []bt.BS
	nontrivial := false
	labels := map[string]bool{"engine=" + c.Engine: true}
	for i := range c.Steps {
		op := &c.Steps[i]
		// classification against the model state before the step
		classifyC01(op, mt, m, labels, &nontrivial)
		res := s.Exec(op)
		if mis := m.Step(op, res); mis != "" {
			return fail("C01", i, op, mis)
		}
		ks := []bt.BS{op.Key}
		if op.K == "MutateRows" {
			ks = ks[:0]
			for _, e := range op.Entries {
				ks = append(ks, e.Key)
			}
		}
		for _, k := range ks {
			if !touched[k] {
				touched[k] = true
				order = append(order, k)
			}
		}
		for _, k := range order {
			if mis := verifyRow(s, mt, tbl, k); mis != "" {
				return fail("C01", i, op, mis)
			}
		}
		if i%5 == 4 || i == len(c.Steps)-1 {
			if mis := verifyScan(s, mt, "", tbl); mis != "" {
				return fail("C01", i, op, mis)
			}
		}
	}
	var ls []string
	for l := range labels {
		ls = append(ls, l)
	}
	ev.Case(c, nontrivial, ls...)
	return nil
}

// classifyC01: non-trivial = a valid list of >=3 mutations on one row that
// includes a delete removing >=1 cell or a SetCell replacing an existing (f,q,ts).
func classifyC01(op *bt.Op, mt *bt.MTable, m *bt.Model, labels map[string]bool, nontrivial *bool) {
	clock := m.Clock
	if op.Clock != nil {
		clock = *op.Clock
	}
	lists := []bt.Entry{{Key: op.Key, Muts: op.Muts}}
	if op.K == "MutateRows" {
		lists = op.Entries
	}
	for _, e := range lists {
		row := mt.Rows[string(e.Key)]
		_, v := bt.ApplyMuts(mt.Fams, row, e.Muts, clock)
		if v == bt.VErr {
			labels["invalid-list"] = true
			for k, mu := range e.Muts {
				if _, vv := bt.ApplyMuts(mt.Fams, row, e.Muts[:k+1], clock); vv == bt.VErr {
					if k > 0 {
						labels["invalid-at-position>0"] = true
					}
					_ = mu
					break
				}
			}
			continue
		}
		cur := row
		effect := false
		for k := range e.Muts {
			next, _ := bt.ApplyMuts(mt.Fams, cur, e.Muts[k:k+1], clock)
			if next == nil {
				break
			}
			mu := e.Muts[k]
			switch mu.K {
			case "set":
				if mu.TS == -1 {
					labels["server-time"] = true
				}
				if mu.TS == bt.MaxTS || mu.TS == 0 {
					labels["boundary-ts"] = true
				}
				if next.NumCells() == cur.NumCells() {
					effect = true
					labels["replace-existing-cell"] = true
				}
			default:
				if next.NumCells() < cur.NumCells() {
					effect = true
					labels["delete-removed-cells"] = true
					if mu.K == "delcol" && mu.Range {
						labels["ranged-delete-removed-cells"] = true
					}
				}
			}
			cur = next
		}
		if len(e.Muts) >= 3 && effect {
			*nontrivial = true
		}
	}
}

func TestC01(t *testing.T) {
	vt.Prop[C01Case]{ID: "C01", Test: "TestC01",
		Rule: "rapid-generated programs of MutateRow/MutateRows (adversarial keys, boundary/invalid timestamps, drawn server clock, 3 engines) checked against a reference map model after every step; non-trivial = a valid list of >=3 mutations on one row containing a delete that removed a cell or a SetCell that replaced an existing (family,qualifier,timestamp); distinct by case hash",
		Gen:  genC01(), Run: runC01}.Main(t)
}
