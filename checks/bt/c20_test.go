package btchecks

import (
	"context"
	"fmt"
	"sync"
	"testing"
	"time"

	"google.golang.org/protobuf/proto"
	"pgregory.net/rapid"

	"verif/internal/bt"
	"verif/internal/vt"
)

// C20 (Bigtable half) — no request or request mix can crash or wedge the service.

type C20Probe struct {
	FailSend int    `json:"failsend,omitempty"` // >0: a multi-message ReadRows whose client goes away at this Send
	Op       *bt.Op `json:"op,omitempty"`       // structure-level perturbation
	RPC      string `json:"rpc,omitempty"`      // byte-level: rpc + payload
	Raw      bt.BS  `json:"raw,omitempty"`
}

type C20BTCase struct {
	Engine string     `json:"engine"`
	Setup  []bt.Op    `json:"setup"`
	Probes []C20Probe `json:"probes"`
}

var c20Tables = []string{"t", "t2"}

func genC20BT() *rapid.Generator[C20BTCase] {
	return rapid.Custom(func(t *rapid.T) C20BTCase {
		c := C20BTCase{Engine: rapid.SampledFrom(bt.Engines).Draw(t, "engine")}
		ctx := bt.ProgCtx{Tables: c20Tables, Fams: bt.AllFams, Keys: c14Keys, Quals: c14Quals, InvalidPct: 5, Admin: 3, Reads: 6, Filters: true, Sample: true,
			FilterOpts: bt.FilterOpts{Fams: bt.AllFams, Keys: c14Keys, Quals: c14Quals, Vals: c05Vals, InvalidPct: 10, Sample: true}}
		c.Setup = append([]bt.Op{{K: "CreateTable", Table: "t", Fams: []bt.FamDef{{Name: "f"}, {Name: "g"}}}}, rapid.SliceOfN(bt.GenOp(ctx), 0, 8).Draw(t, "setup")...)
		probe := rapid.Custom(func(t *rapid.T) C20Probe {
			if rapid.IntRange(0, 14).Draw(t, "failsend") == 0 {
				return C20Probe{FailSend: rapid.IntRange(1, 3).Draw(t, "at")}
			}
			if rapid.Bool().Draw(t, "structural") {
				op := bt.GenHostileOp(c20Tables).Draw(t, "hostile")
				return C20Probe{Op: &op}
			}
			// byte-level mutation of a valid (or hostile) request
			var base bt.Op
			if rapid.Bool().Draw(t, "fromvalid") {
				base = bt.GenOp(ctx).Draw(t, "valid")
			} else {
				base = bt.GenHostileOp(c20Tables).Draw(t, "hostilebase")
			}
			rpc, msg, _ := bt.BuildReq(&base)
			buf, err := proto.Marshal(msg)
			if err != nil {
				buf = nil
			}
			other := bt.GenOp(ctx).Draw(t, "other")
			_, omsg, _ := bt.BuildReq(&other)
			obuf, _ := proto.Marshal(omsg)
			if rapid.IntRange(0, 5).Draw(t, "wrongrpc") == 0 {
				rpc = rapid.SampledFrom(bt.RPCNames).Draw(t, "rpc")
			}
			return C20Probe{RPC: rpc, Raw: bt.BS(bt.MutateBytes(buf, obuf).Draw(t, "bytes"))}
		})
		c.Probes = rapid.SliceOfN(probe, 1, 12).Draw(t, "probes")
		return c
	})
}

const canary = "canary"

var canaryRows = map[string]string{"c1": "v1", "c2\x00": "v2", "\xff": "v3"}

func canaryWrite(s *bt.Srv) *vt.Failure {
	if r := s.Exec(&bt.Op{K: "CreateTable", Table: canary, Fams: []bt.FamDef{{Name: "f"}}}); !r.OK() {
		return vt.Failf("C20", "canary table: %+v", r)
	}
	for k, v := range canaryRows {
		if r := s.Exec(&bt.Op{K: "MutateRow", Table: canary, Key: bt.BS(k), Muts: []bt.Mut{{K: "set", Fam: "f", Qual: "q", TS: 1000, Val: bt.BS(v)}}}); !r.OK() {
			return vt.Failf("C20", "canary write: %+v", r)
		}
	}
	return nil
}

// canaryProbe: previously stored data intact, valid requests still served.
func canaryProbe(s *bt.Srv, n int) string {
	mt := &bt.MTable{Rows: map[string]bt.MRow{}}
	for k, v := range canaryRows {
		mt.Rows[k] = bt.MRow{"f": {"q": {1000: v}}}
	}
	if mis := verifyScan(s, mt, "", canary); mis != "" {
		return "canary data changed: " + mis
	}
	lt := s.Exec(&bt.Op{K: "ListTables"})
	found := false
	for _, n := range lt.Tables {
		if n == (&bt.Op{Table: canary}).FullName() {
			found = true
		}
	}
	if !lt.OK() || !found {
		return fmt.Sprintf("ListTables no longer shows the canary table: %+v", lt)
	}
	key := bt.BS(fmt.Sprintf("probe%d", n))
	w := s.Exec(&bt.Op{K: "MutateRow", Table: canary, Key: key, Muts: []bt.Mut{{K: "set", Fam: "f", Qual: "p", TS: 1000, Val: "x"}}})
	rd := s.ReadKey("", canary, key)
	d := s.Exec(&bt.Op{K: "MutateRow", Table: canary, Key: key, Muts: []bt.Mut{{K: "delrow"}}})
	if !w.OK() || !rd.OK() || len(rd.Rows) != 1 || !d.OK() {
		return fmt.Sprintf("a fresh write+read on the canary table fails: write=%+v read=%+v", w, rd)
	}
	return ""
}

// withWatchdog runs f. inline says that f executes the handler on its own stack (a stream with a Send hook): then a
// goroutine that is blocked in every wait-state sample after d is a hang (false is returned). Otherwise the harness
// call inside f detects hangs itself (HANG result) and this only bounds a machine too slow to judge.
func withWatchdog(d time.Duration, inline bool, f func() *bt.Result) (*bt.Result, bool) {
	ch := make(chan *bt.Result, 1)
	fin := make(chan struct{})
	var g vt.GoidSet
	go func() { g.Add(); ch <- f(); close(fin) }()
	ids := g.IDs
	if !inline {
		ids = nil
	}
	if mis := vt.Await(fin, d, ids, "probe"); mis != "" {
		return nil, false
	}
	return <-ch, true
}

func runC20BT(c C20BTCase, ev *vt.Ev) *vt.Failure {
	vt.WriteCurrent("TestC20BT", "C20", c) // a fatal runtime error cannot be recovered: keep the running case on disk
	defer vt.ClearCurrent("TestC20BT")
	s, err := bt.NewSrv(c.Engine, "")
	if err != nil {
		return vt.Failf("C20", "server start: %v", err)
	}
	defer s.Close()
	if f := canaryWrite(s); f != nil {
		return f
	}
	for i := range c.Setup {
		if r := s.Exec(&c.Setup[i]); r.Panic != "" {
			return vt.Failf("C20", "setup step %d (%s) panicked: %s", i, c.Setup[i].K, r.Panic)
		}
	}
	labels := map[string]bool{"engine=" + c.Engine: true}
	reached := 0
	bigLoaded := false
	for i, p := range c.Probes {
		var res *bt.Result
		var returned bool
		what := ""
		if p.FailSend > 0 {
			if !bigLoaded {
				bigLoaded = true
				s.Exec(&bt.Op{K: "CreateTable", Table: "big", Fams: []bt.FamDef{{Name: "f"}}})
				var entries []bt.Entry
				for r := 0; r < 3500; r++ {
					entries = append(entries, bt.Entry{Key: bt.BS(fmt.Sprintf("r%05d", r)), Muts: []bt.Mut{{K: "set", Fam: "f", Qual: "q", TS: 1000, Val: "x"}}})
				}
				s.Exec(&bt.Op{K: "MutateRows", Table: "big", Entries: entries})
			}
			what = fmt.Sprintf("ReadRows whose client disconnects at message %d", p.FailSend)
			at := p.FailSend
			res, returned = withWatchdog(60*time.Second, true, func() *bt.Result {
				return s.ExecCtx(context.Background(), &bt.Op{K: "ReadRows", Table: "big"}, func(n int) error {
					if n >= at {
						return fmt.Errorf("rpc error: code = Canceled desc = client went away")
					}
					return nil
				})
			})
			labels["client-disconnect-during-scan"] = true
		} else if p.Op != nil {
			what = "structural " + p.Op.K
			res, returned = withWatchdog(120*time.Second, false, func() *bt.Result { return s.Exec(p.Op) })
			labels["structural:"+p.Op.K] = true
		} else {
			what = "byte-level " + p.RPC
			ok := true
			res, returned = withWatchdog(120*time.Second, false, func() *bt.Result {
				r, o := s.ExecRaw(context.Background(), p.RPC, p.Raw.B())
				ok = o
				return r
			})
			if returned && !ok {
				labels["rejected-by-decoding"] = true
				continue
			}
			labels["bytes:"+p.RPC] = true
		}
		if !returned {
			return vt.Failf("C20", "probe %d (%s) did not return and its goroutine is blocked (hang)", i, what)
		}
		reached++
		if res.Panic != "" {
			return vt.Failf("C20", "probe %d (%s) panicked: %s", i, what, res.Panic)
		}
		if res.Code < 0 || res.Code > 16 {
			return vt.Failf("C20", "probe %d (%s): status code %d is not a gRPC code", i, what, res.Code)
		}
		if res.Code != 0 {
			labels[fmt.Sprintf("code=%d", res.Code)] = true
		}
		if mis := canaryProbe(s, i); mis != "" {
			return vt.Failf("C20", "after probe %d (%s): %s", i, what, mis)
		}
	}
	var ls []string
	for l := range labels {
		ls = append(ls, l)
	}
	ev.Case(c, reached >= 1, ls...)
	return nil
}

func TestC20BT(t *testing.T) {
	vt.Prop[C20BTCase]{ID: "C20", Test: "TestC20BT",
		Rule: "Bigtable: after a drawn valid setup program, 1-12 probes per case on 3 engines: ReadRows whose client disconnects in the middle of a multi-message stream, structure-level perturbations of every implemented RPC (unset oneofs / sub-messages, MinInt/MaxInt/negative numbers, empty and 64 KiB names and keys, missing tables, duplicated entries, 0 or 200 sub-filters, NaN/Inf sample probability, 10^4 ranges, catastrophic regexes) and byte-level mutations (flip, insert, delete, truncate, splice) of marshalled valid/hostile requests, sent to the right or a wrong RPC (only bytes that proto.Unmarshal accepts reach a handler, as with gRPC); oracle: no panic, a gRPC status, the call returns (a call whose goroutine sits in a lock / channel wait in 5 samples after 60 s is a hang; a slow one is waited for), and afterwards the canary table reads back identical, ListTables shows it and a fresh write+read works; non-trivial = at least one perturbed request reached a handler",
		Gen:  genC20BT(), Run: runC20BT}.Main(t)
}

// ---------------------------------------------------------------- concurrent mixes (-race)

type C20MixCase struct {
	Engine  string    `json:"engine"`
	Workers [][]bt.Op `json:"workers"`
	Rows    int       `json:"rows"`
}

func genC20Mix() *rapid.Generator[C20MixCase] {
	return rapid.Custom(func(t *rapid.T) C20MixCase {
		c := C20MixCase{Engine: rapid.SampledFrom(bt.Engines).Draw(t, "engine"), Rows: rapid.SampledFrom([]int{20, 300, 1500}).Draw(t, "rows")}
		mixOp := rapid.Custom(func(t *rapid.T) bt.Op {
			tb := rapid.SampledFrom([]string{"t", "t", "t2"}).Draw(t, "table")
			switch rapid.IntRange(0, 13).Draw(t, "k") {
			case 0:
				return bt.Op{K: "CreateTable", Table: tb, Fams: []bt.FamDef{{Name: "f"}, {Name: "g"}}}
			case 1:
				return bt.Op{K: "DeleteTable", Table: tb}
			case 2:
				return bt.Op{K: "GetTable", Table: tb}
			case 3:
				return bt.Op{K: "ModifyCF", Table: tb, Mods: []bt.Mod{{K: rapid.SampledFrom([]string{"create", "drop", "update"}).Draw(t, "mk"), ID: rapid.SampledFrom([]string{"g", "h"}).Draw(t, "id"), GC: &bt.GC{K: "maxv", N: 1}}}}
			case 4:
				return bt.Op{K: "DropRowRange", Table: tb, All: true}
			case 5:
				return bt.Op{K: "DropRowRange", Table: tb, Prefix: "r0"}
			case 6:
				return bt.Op{K: "GenToken", Table: tb}
			case 7:
				return bt.Op{K: "CheckConsistency", Table: tb, Token: "TokenFor-" + (&bt.Op{Table: tb}).FullName()}
			case 8:
				return bt.Op{K: "ListTables"}
			case 9, 10:
				return bt.Op{K: "ReadRows", Table: tb}
			case 11:
				return bt.Op{K: "Sample", Table: tb}
			default:
				return bt.Op{K: "MutateRow", Table: tb, Key: bt.BS(fmt.Sprintf("r%04d", rapid.IntRange(0, 2000).Draw(t, "row"))), Muts: []bt.Mut{{K: "set", Fam: rapid.SampledFrom([]string{"f", "g"}).Draw(t, "fam"), Qual: "q", TS: 1000, Val: "x"}}}
			}
		})
		for w, n := 0, rapid.IntRange(4, 8).Draw(t, "workers"); w < n; w++ {
			c.Workers = append(c.Workers, rapid.SliceOfN(mixOp, 5, 40).Draw(t, fmt.Sprintf("w%d", w)))
		}
		return c
	})
}

func runC20Mix(c C20MixCase, ev *vt.Ev) *vt.Failure {
	vt.WriteCurrent("TestC20BTMix", "C20", c)
	defer vt.ClearCurrent("TestC20BTMix")
	s, err := bt.NewSrv(c.Engine, "")
	if err != nil {
		return vt.Failf("C20", "server start: %v", err)
	}
	defer s.Close()
	if f := canaryWrite(s); f != nil {
		return f
	}
	s.Exec(&bt.Op{K: "CreateTable", Table: "t", Fams: []bt.FamDef{{Name: "f"}, {Name: "g"}}})
	var entries []bt.Entry
	for i := 0; i < c.Rows; i++ {
		entries = append(entries, bt.Entry{Key: bt.BS(fmt.Sprintf("r%04d", i)), Muts: []bt.Mut{{K: "set", Fam: "f", Qual: "q", TS: 1000, Val: "init"}}})
	}
	if len(entries) > 0 {
		s.Exec(&bt.Op{K: "MutateRows", Table: "t", Entries: entries})
	}
	var mu sync.Mutex
	var firstPanic string
	calls := 0
	var wg sync.WaitGroup
	for w := range c.Workers {
		w := w
		wg.Add(1)
		go func() {
			defer wg.Done()
			for i := range c.Workers[w] {
				r := s.Exec(&c.Workers[w][i])
				mu.Lock()
				calls++
				if r.Panic != "" && firstPanic == "" {
					firstPanic = fmt.Sprintf("worker %d op %d (%s): %s", w, i, c.Workers[w][i].K, r.Panic)
				}
				if r.StreamErr != "" && firstPanic == "" {
					firstPanic = fmt.Sprintf("worker %d op %d (%s): malformed stream: %s", w, i, c.Workers[w][i].K, r.StreamErr)
				}
				mu.Unlock()
			}
		}()
	}
	done := make(chan struct{})
	go func() { wg.Wait(); close(done) }()
	// every call goes through s.Exec, which reports a blocked request as a HANG result: this only bounds a slow machine
	vt.Await(done, 180*time.Second, nil, "concurrent mix")
	if firstPanic != "" {
		return vt.Failf("C20", "%s", firstPanic)
	}
	if mis := canaryProbe(s, 0); mis != "" {
		return vt.Failf("C20", "after the concurrent mix: %s", mis)
	}
	ev.Case(c, calls >= 40, "engine="+c.Engine)
	return nil
}

func TestC20BTMix(t *testing.T) {
	vt.Prop[C20MixCase]{ID: "C20", Test: "TestC20BTMix",
		Rule: "Bigtable, under the Go race detector: 4-8 goroutines x 5-40 direct calls with the wire round-trip (the response marshal after return is what races with schema changes in the real server): create / delete / re-create table while reading and writing it, ModifyColumnFamilies while GetTable / ReadRows / MutateRow, DropRowRange(all / prefix) during multi-message scans, consistency-token RPCs, SampleRowKeys; oracle: no race report, no panic or fatal runtime error (the shard process must exit normally), all calls return (same hang rule), streams well formed, canary data intact; non-trivial = >=40 calls completed",
		Gen:  genC20Mix(), Run: runC20Mix}.Main(t)
}
