package btchecks

import (
	"fmt"
	"runtime"
	"strings"
	"sync"
	"sync/atomic"
	"testing"
	"time"

	"github.com/fullstorydev/emulators/bigtable/bttest"
	"pgregory.net/rapid"

	"verif/internal/bt"
	"verif/internal/sched"
	"verif/internal/vt"
)

// C06 — every single-row write is all-or-nothing and linearizable per row.

// ---------------------------------------------------------------- (a) failure atomicity

func genC06Atomic() *rapid.Generator[ProgCase] {
	return rapid.Custom(func(t *rapid.T) ProgCase {
		c := ProgCase{Engine: rapid.SampledFrom(bt.Engines).Draw(t, "engine")}
		keys := []bt.BS{"r1", "r2", "r1\x00"}
		quals := []bt.BS{"q1", "q2", ""}
		fams := []string{"f", "g"}
		o := bt.FilterOpts{Fams: fams, Keys: keys, Quals: quals, Vals: c05Vals}
		// a list that is valid except for its k-th element
		badAt := func(t *rapid.T, l string) []bt.Mut {
			good := bt.GenMuts(fams, 1, 5, 0, quals...).Draw(t, l+"good")
			if rapid.IntRange(0, 2).Draw(t, l+"allgood") == 0 {
				return good
			}
			k := rapid.IntRange(0, len(good)).Draw(t, l+"k")
			bad := bt.GenMut(fams, 100, quals...).Draw(t, l+"bad")
			out := append(append(append([]bt.Mut{}, good[:k]...), bad), good[k:]...)
			return out
		}
		step := rapid.Custom(func(t *rapid.T) bt.Op {
			op := bt.Op{Table: tbl, Key: rapid.SampledFrom(keys).Draw(t, "key"), Clock: bt.I64(rapid.SampledFrom([]int64{1000, 5000}).Draw(t, "clock"))}
			switch rapid.IntRange(0, 9).Draw(t, "kind") {
			case 0, 1, 2:
				op.K, op.Muts = "MutateRow", badAt(t, "m")
			case 3, 4, 5:
				op.K = "MutateRows"
				for i, n := 0, rapid.IntRange(1, 4).Draw(t, "ne"); i < n; i++ {
					op.Entries = append(op.Entries, bt.Entry{Key: rapid.SampledFrom(keys).Draw(t, "ek"), Muts: badAt(t, fmt.Sprintf("e%d", i))})
				}
			case 6, 7:
				op.K = "CheckAndMutate"
				if rapid.Bool().Draw(t, "haspred") {
					f := bt.GenFilter(2, o).Draw(t, "pred")
					op.Pred = &f
				}
				op.TMuts, op.FMuts = badAt(t, "t"), badAt(t, "f")
			default:
				op.K = "RMW"
				n := rapid.IntRange(1, 4).Draw(t, "nr")
				k := rapid.IntRange(0, n).Draw(t, "badk")
				for i := 0; i < n; i++ {
					r := bt.RMWRule{Fam: rapid.SampledFrom(fams).Draw(t, "fam"), Qual: rapid.SampledFrom(quals).Draw(t, "q")}
					if rapid.Bool().Draw(t, "inc") {
						r.Inc, r.Amount = true, 1
					} else {
						r.Append = "x"
					}
					if i == k {
						if rapid.Bool().Draw(t, "unk") {
							r.Fam = "nofam"
						} else {
							r.Inc, r.Amount = true, 1 // fails if the value is not 8 bytes
						}
					}
					op.Rules = append(op.Rules, r)
				}
			}
			return op
		})
		c.Steps = rapid.SliceOfN(step, 2, 25).Draw(t, "steps")
		return c
	})
}

func runC06Atomic(c ProgCase, ev *vt.Ev) *vt.Failure {
	s, err := bt.NewSrv(c.Engine, "")
	if err != nil {
		return vt.Failf("C06", "server start: %v", err)
	}
	defer s.Close()
	m := bt.NewModel()
	if f := mustCreate(s, m, tbl, []string{"f", "g"}); f != nil {
		f.Property = "C06"
		return f
	}
	mt := m.Tables[(&bt.Op{Table: tbl}).FullName()]
	nontrivial := false
	labels := map[string]bool{"engine=" + c.Engine: true}
	for i := range c.Steps {
		op := &c.Steps[i]
		// would a valid prefix of a failing list have changed the row?
		lists := map[string][]bt.Mut{}
		switch op.K {
		case "MutateRow":
			lists[string(op.Key)] = op.Muts
		case "MutateRows":
			for _, e := range op.Entries {
				lists[string(e.Key)] = e.Muts
			}
		}
		for k, l := range lists {
			if _, v := bt.ApplyMuts(mt.Fams, mt.Rows[k], l, *op.Clock); v == bt.VErr && len(l) > 1 {
				if nr, v0 := bt.ApplyMuts(mt.Fams, mt.Rows[k], l[:1], *op.Clock); v0 == bt.VOK && fmt.Sprint(nr.Cells()) != fmt.Sprint(mt.Rows[k].Cells()) {
					nontrivial = true
					labels["failing-list-with-effective-valid-prefix:"+op.K] = true
				}
			}
		}
		res := s.Exec(op)
		mis := m.Step(op, res)
		if strings.Contains(mis, "UNSPEC:") {
			resyncRow(s, m, op)
			mis = ""
		}
		if mis != "" {
			return fail("C06", i, op, mis)
		}
		if res.Code != 0 {
			labels["rejected:"+op.K] = true
		}
		if mis := verifyScan(s, mt, "", tbl); mis != "" {
			return fail("C06", i, op, mis)
		}
	}
	var ls []string
	for l := range labels {
		ls = append(ls, l)
	}
	ev.Case(c, nontrivial, ls...)
	return nil
}

func TestC06Atomic(t *testing.T) {
	vt.Prop[ProgCase]{ID: "C06", Test: "TestC06Atomic",
		Rule: "failure atomicity (sequential): rapid-generated programs of MutateRow / MutateRows (several entries, also for the same row) / CheckAndMutateRow / ReadModifyWriteRow whose lists are valid except for a k-th element at every position, 3 engines; after every request the whole table is re-scanned against the model (a rejected request or entry leaves its row exactly as before, the other entries take effect); non-trivial = a failing list with k>0 whose valid prefix would have changed the row",
		Gen:  genC06Atomic(), Run: runC06Atomic}.Main(t)
}

// ---------------------------------------------------------------- (b) linearizability

type ConcCase struct {
	Engine  string    `json:"engine"`
	Init    []bt.Op   `json:"init,omitempty"`
	Workers [][]bt.Op `json:"workers"`
	Choices []int     `json:"choices,omitempty"`
	Jitter  []int     `json:"jitter,omitempty"` // free-running variant: 0 none, 1 Gosched, 2 short sleep per store access
}

var c06Keys = []bt.BS{"r1", "r2"}

func genConcOp(w int) *rapid.Generator[bt.Op] {
	return rapid.Custom(func(t *rapid.T) bt.Op {
		op := bt.Op{Table: tbl, Key: rapid.SampledFrom(c06Keys).Draw(t, "key")}
		tag := fmt.Sprintf("w%d-%d", w, rapid.IntRange(0, 9).Draw(t, "tag"))
		switch rapid.IntRange(0, 11).Draw(t, "kind") {
		case 0, 1, 2:
			op.K = "MutateRow"
			op.Muts = []bt.Mut{{K: "set", Fam: "f", Qual: "a", TS: 1000, Val: bt.BS(tag)}, {K: "set", Fam: "f", Qual: "b", TS: 1000, Val: bt.BS(tag)}}
			if rapid.Bool().Draw(t, "three") {
				op.Muts = append(op.Muts, bt.Mut{K: "set", Fam: "g", Qual: "c", TS: 1000, Val: bt.BS(tag)})
			}
			if rapid.IntRange(0, 4).Draw(t, "del") == 0 {
				op.Muts = append([]bt.Mut{{K: "delrow"}}, op.Muts...)
			}
		case 3:
			op.K = "MutateRows"
			op.Entries = []bt.Entry{
				{Key: "r1", Muts: []bt.Mut{{K: "set", Fam: "f", Qual: "a", TS: 1000, Val: bt.BS(tag)}, {K: "set", Fam: "f", Qual: "b", TS: 1000, Val: bt.BS(tag)}}},
				{Key: "r2", Muts: []bt.Mut{{K: "set", Fam: "f", Qual: "a", TS: 1000, Val: bt.BS(tag)}, {K: "set", Fam: "f", Qual: "b", TS: 1000, Val: bt.BS(tag)}}}}
			op.Key = ""
		case 4, 5:
			op.K = "CheckAndMutate"
			switch rapid.IntRange(0, 2).Draw(t, "pred") {
			case 0: // "set if absent"
				op.Pred = &bt.Filter{K: "colrange", Fam: "f", S: bt.Bound{K: 2, V: "owner"}, E: bt.Bound{K: 2, V: "owner"}}
				op.FMuts = []bt.Mut{{K: "set", Fam: "f", Qual: "owner", TS: 1000, Val: bt.BS(tag)}}
			case 1:
				op.TMuts = []bt.Mut{{K: "set", Fam: "g", Qual: "t", TS: 1000, Val: bt.BS(tag)}}
				op.FMuts = []bt.Mut{{K: "set", Fam: "g", Qual: "f", TS: 1000, Val: bt.BS(tag)}}
			default:
				op.Pred = &bt.Filter{K: "value", Rx: &bt.Rx{K: "cat", Subs: []bt.Rx{{K: "lit", Lit: "w0"}, {K: "star", Subs: []bt.Rx{{K: "anyc"}}}}}}
				op.TMuts = []bt.Mut{{K: "delrow"}, {K: "set", Fam: "g", Qual: "t", TS: 1000, Val: bt.BS(tag)}}
				op.FMuts = []bt.Mut{{K: "set", Fam: "g", Qual: "f", TS: 1000, Val: bt.BS(tag)}}
			}
		case 6, 7, 8:
			op.K = "RMW"
			op.Rules = []bt.RMWRule{{Fam: "f", Qual: "cnt", Inc: true, Amount: 1}}
			if rapid.Bool().Draw(t, "app") {
				op.Rules = append(op.Rules, bt.RMWRule{Fam: "g", Qual: "log", Append: bt.BS(fmt.Sprintf("%d", w))})
			}
		default:
			op.K = "ReadRow"
		}
		return op
	})
}

func genConc(engines []string, free bool) *rapid.Generator[ConcCase] {
	return rapid.Custom(func(t *rapid.T) ConcCase {
		c := ConcCase{Engine: rapid.SampledFrom(engines).Draw(t, "engine")}
		nw := rapid.IntRange(2, 4).Draw(t, "workers")
		if rapid.Bool().Draw(t, "init") {
			c.Init = []bt.Op{{K: "MutateRow", Table: tbl, Key: "r1", Muts: []bt.Mut{{K: "set", Fam: "f", Qual: "a", TS: 1000, Val: "init"}, {K: "set", Fam: "f", Qual: "b", TS: 1000, Val: "init"}}}}
		}
		for w := 0; w < nw; w++ {
			c.Workers = append(c.Workers, rapid.SliceOfN(genConcOp(w), 1, 3).Draw(t, fmt.Sprintf("w%d", w)))
		}
		if free {
			c.Jitter = rapid.SliceOfN(rapid.IntRange(0, 2), 1, 16).Draw(t, "jitter")
		} else {
			c.Choices = rapid.SliceOfN(rapid.IntRange(0, 4), 0, 80).Draw(t, "choices")
		}
		return c
	})
}

type concStats struct {
	heldInWindow  bool
	blocked       int
	overlapWrites bool
}

func readRowOp(key bt.BS) *bt.Op {
	return &bt.Op{K: "ReadRows", Table: tbl, Rows: &bt.RowSet{Keys: []bt.BS{key}}}
}

// execConc runs one op (ReadRow is a single-key ReadRows).
func execConc(s *bt.Srv, op *bt.Op) *bt.Result {
	if op.K == "ReadRow" {
		return s.Exec(readRowOp(op.Key))
	}
	return s.Exec(op)
}

var c06Fams = map[string]*bt.GC{"f": nil, "g": nil}

// runConc executes the case under the controlled scheduler (ch != nil) or free-running.
func runConc(prop string, c *ConcCase, ch sched.Chooser) (concStats, []int, string) {
	var st concStats
	sc := sched.New()
	sc.DetectBlocking = true
	var jit int64
	y := func(p string) {
		if ch != nil {
			sc.Yield(p, nil)
			return
		}
		if len(c.Jitter) > 0 {
			switch c.Jitter[int(atomic.AddInt64(&jit, 1))%len(c.Jitter)] {
			case 1:
				runtime.Gosched()
			case 2:
				time.Sleep(20 * time.Microsecond)
			}
		}
	}
	s, err := bt.NewSrvWrap(c.Engine, "", func(in bttest.Storage) bttest.Storage { return bt.WrapYield(in, y) })
	if err != nil {
		return st, nil, "server start: " + err.Error()
	}
	defer s.Close()
	s.Inline = true // the scheduler identifies workers by goroutine
	s.SetClock(5000)
	if f := mustCreate(s, nil, tbl, []string{"f", "g"}); f != nil {
		return st, nil, f.Msg
	}
	var tick int64
	var mu sync.Mutex
	var hist []bt.HistOp
	record := func(client int, op *bt.Op, res *bt.Result, call, ret int64) {
		mu.Lock()
		hist = append(hist, bt.HistOp{Client: client, Op: op, Res: res, Call: call, Return: ret})
		mu.Unlock()
	}
	for i := range c.Init {
		call := atomic.AddInt64(&tick, 1)
		res := s.Exec(&c.Init[i])
		record(100, &c.Init[i], res, call, atomic.AddInt64(&tick, 1))
	}
	body := func(w int) func() {
		return func() {
			for i := range c.Workers[w] {
				op := &c.Workers[w][i]
				call := atomic.AddInt64(&tick, 1)
				res := execConc(s, op)
				record(w, op, res, call, atomic.AddInt64(&tick, 1))
			}
		}
	}
	var choices []int
	if ch != nil {
		for w := range c.Workers {
			b := body(w)
			sc.Go(fmt.Sprintf("w%d", w), func(*sched.Worker) { b() })
		}
		sc.OnStep = func(w *sched.Worker) string {
			if w.Panic != nil {
				return fmt.Sprintf("panic in worker %s: %v\n%s", w.Name, w.Panic, w.PanicStk)
			}
			for _, ow := range sc.Workers() {
				if ow != w && !ow.Done() && (ow.Point() == "rows.ReplaceOrInsert" || ow.Point() == "rows.Delete") {
					st.heldInWindow = true
				}
			}
			return ""
		}
		msg, err := sc.Run(ch)
		choices = sc.Choices
		st.blocked = sc.Blocked
		if msg != "" {
			return st, choices, msg
		}
		if err != nil {
			if de, ok := err.(*sched.DeadlockError); ok {
				return st, choices, "deadlock: " + de.Msg
			}
			return st, choices, "HARNESS:" + err.Error()
		}
	} else {
		var wg sync.WaitGroup
		var gs vt.GoidSet
		for w := range c.Workers {
			wg.Add(1)
			b := body(w)
			go func() { defer wg.Done(); gs.Add(); b() }()
		}
		done := make(chan struct{})
		go func() { wg.Wait(); close(done) }()
		// the requests run on the workers' own stacks (inline): all of them blocked = deadlock, some running = slow machine
		if mis := vt.Await(done, 120*time.Second, gs.IDs, "concurrent requests"); mis != "" {
			return st, nil, "deadlock: " + mis
		}
	}
	// final sequential reads close the history
	for _, k := range c06Keys {
		op := &bt.Op{K: "ReadRow", Table: tbl, Key: k}
		call := atomic.AddInt64(&tick, 1)
		res := execConc(s, op)
		record(101, op, res, call, atomic.AddInt64(&tick, 1))
	}
	for _, h := range hist {
		if h.Res.Panic != "" {
			return st, choices, "panic: " + h.Res.Panic
		}
	}
	// overlapping writes on one row?
	for i := range hist {
		for j := i + 1; j < len(hist); j++ {
			a, b := hist[i], hist[j]
			if a.Op.K != "ReadRow" && b.Op.K != "ReadRow" && a.Client != b.Client && a.Call < b.Return && b.Call < a.Return {
				st.overlapWrites = true
			}
		}
	}
	if mis := bt.CheckLinearizable(hist, c06Fams, 5000); mis != "" {
		return st, choices, mis
	}
	return st, choices, ""
}

func runC06Sched(c ConcCase, ev *vt.Ev) *vt.Failure {
	cc := c
	st, _, mis := runConc("C06", &cc, &sched.ListChooser{List: c.Choices, Sticky: false})
	if strings.HasPrefix(mis, "HARNESS:") {
		panic(mis)
	}
	if mis != "" {
		return &vt.Failure{Property: "C06", Msg: mis}
	}
	var ls []string
	if st.heldInWindow {
		ls = append(ls, "worker-held-between-read-and-write-back")
	}
	if st.blocked > 0 {
		ls = append(ls, "request-blocked-on-table-lock")
	}
	ev.Case(c, st.heldInWindow && st.overlapWrites, append(ls, "engine="+c.Engine)...)
	return nil
}

func TestC06Sched(t *testing.T) {
	vt.Prop[ConcCase]{ID: "C06", Test: "TestC06Sched",
		Rule: "owned schedules: 2-4 concurrent clients x 1-3 single-row requests (multi-mutation MutateRow, two-row MutateRows, CheckAndMutateRow incl. 'set if absent', ReadModifyWriteRow increments/appends, single-row reads) on 2 rows, btree and leveldb-mem; every row-store access (Get, ReplaceOrInsert, Delete, iterator callback) is a yield point of a controlled scheduler driven by a rapid-drawn, shrinkable choice list; real lock blocking is detected from goroutine wait states; the complete history (logical call/return stamps, every response field) plus final reads is checked for per-row linearizability with porcupine against the sequential model; non-trivial = some request was parked between its row read and its write-back while another client was granted a step, and two writes overlapped",
		Gen:  genConc([]string{"btree", "leveldb-mem"}, false), Run: runC06Sched}.Main(t)
}

func runC06Race(c ConcCase, ev *vt.Ev) *vt.Failure {
	cc := c
	vt.WriteCurrent("TestC06Race", "C06", c)
	st, _, mis := runConc("C06", &cc, nil)
	vt.ClearCurrent("TestC06Race")
	if mis != "" {
		return &vt.Failure{Property: "C06", Msg: mis}
	}
	ev.Case(c, st.overlapWrites, "engine="+c.Engine)
	return nil
}

func TestC06Race(t *testing.T) {
	vt.Prop[ConcCase]{ID: "C06", Test: "TestC06Race",
		Rule: "free-running variant of TestC06Sched under the Go race detector: real goroutines, drawn Gosched/sleep jitter at every row-store access, 3 engines; same linearizability oracle (logical stamps from an atomic counter); a race report or fatal runtime error kills the shard and is reported with the running case; non-trivial = two writes of different clients overlapped",
		Gen:  genConc(bt.Engines, true), Run: runC06Race}.Main(t)
}

// ---------------------------------------------------------------- exhaustive schedules for op pairs

func c06PairOps(w int) []bt.Op {
	tag := bt.BS(fmt.Sprintf("w%d", w))
	return []bt.Op{
		{K: "MutateRow", Table: tbl, Key: "r1", Muts: []bt.Mut{{K: "set", Fam: "f", Qual: "a", TS: 1000, Val: tag}, {K: "set", Fam: "f", Qual: "b", TS: 1000, Val: tag}}},
		{K: "MutateRow", Table: tbl, Key: "r1", Muts: []bt.Mut{{K: "delrow"}, {K: "set", Fam: "f", Qual: "a", TS: 1000, Val: tag}, {K: "set", Fam: "g", Qual: "c", TS: 1000, Val: tag}}},
		{K: "RMW", Table: tbl, Key: "r1", Rules: []bt.RMWRule{{Fam: "f", Qual: "cnt", Inc: true, Amount: 1}}},
		{K: "RMW", Table: tbl, Key: "r1", Rules: []bt.RMWRule{{Fam: "f", Qual: "cnt", Inc: true, Amount: 1}, {Fam: "g", Qual: "log", Append: tag}}},
		{K: "CheckAndMutate", Table: tbl, Key: "r1", Pred: &bt.Filter{K: "colrange", Fam: "f", S: bt.Bound{K: 2, V: "owner"}, E: bt.Bound{K: 2, V: "owner"}},
			FMuts: []bt.Mut{{K: "set", Fam: "f", Qual: "owner", TS: 1000, Val: tag}}},
		{K: "CheckAndMutate", Table: tbl, Key: "r1", TMuts: []bt.Mut{{K: "set", Fam: "g", Qual: "t", TS: 1000, Val: tag}}, FMuts: []bt.Mut{{K: "set", Fam: "g", Qual: "f", TS: 1000, Val: tag}}},
		{K: "ReadRow", Table: tbl, Key: "r1"},
		{K: "MutateRows", Table: tbl, Entries: []bt.Entry{
			{Key: "r1", Muts: []bt.Mut{{K: "set", Fam: "f", Qual: "a", TS: 1000, Val: tag}, {K: "set", Fam: "f", Qual: "b", TS: 1000, Val: tag}}},
			{Key: "r2", Muts: []bt.Mut{{K: "set", Fam: "f", Qual: "a", TS: 1000, Val: tag}}}}},
	}
}

func TestC06Enum(t *testing.T) {
	p := vt.Prop[ConcCase]{ID: "C06", Test: "TestC06Enum",
		Rule: "stateless DFS (re-execution) over ALL schedules of 2 clients x 1 request for every ordered pair of 8 request shapes on one row (two multi-mutation MutateRow forms, increment, increment+append, set-if-absent CheckAndMutate, predicate-less CheckAndMutate, read, two-row MutateRows) x {empty row, initialised row} x {btree, leveldb-mem}: 256 configurations; yield points at every row-store access, blocking detected from wait states; per-row linearizability of the history (porcupine); thorough = all configurations, quick = those with index mod 4 == VERIF_SEED mod 4; non-trivial = a request parked between its row read and its write-back while the other was granted a step",
		Run:  runC06Sched}
	if vt.Replay() != "" {
		p.Gen = rapid.Just(ConcCase{})
		p.Main(t)
		return
	}
	ev := vt.NewEv(p.ID, p.Test, p.Rule)
	defer ev.Flush()
	a, b := c06PairOps(0), c06PairOps(1)
	type cfg struct {
		engine string
		init   bool
		i, j   int
	}
	var cfgs []cfg
	for _, e := range []string{"btree", "leveldb-mem"} {
		for _, in := range []bool{false, true} {
			for i := range a {
				for j := range b {
					cfgs = append(cfgs, cfg{e, in, i, j})
				}
			}
		}
	}
	stride, offset := 4, int(vt.Seed()%4)
	if vt.Thorough() {
		stride, offset = 1, 0
	}
	exhaustive := true
	for ci := offset; ci < len(cfgs); ci += stride {
		if (ci/stride)%vt.NShards() != vt.Shard() {
			continue
		}
		cf := cfgs[ci]
		base := ConcCase{Engine: cf.engine, Workers: [][]bt.Op{{a[cf.i]}, {b[cf.j]}}}
		if cf.init {
			base.Init = []bt.Op{{K: "MutateRow", Table: tbl, Key: "r1", Muts: []bt.Mut{{K: "set", Fam: "f", Qual: "a", TS: 1000, Val: "init"}, {K: "set", Fam: "f", Qual: "b", TS: 1000, Val: "init"}}}}
		}
		d := sched.NewDFS(-1)
		n := 0
		for d.Next() {
			c := base
			st, choices, mis := runConc("C06", &c, d)
			if strings.HasPrefix(mis, "HARNESS:") {
				t.Fatalf("%s", mis)
			}
			c.Choices = choices
			if mis != "" {
				f := &vt.Failure{Property: "C06", Msg: fmt.Sprintf("config #%d (%s, ops %d x %d, init=%v), schedule %d: %s", ci, cf.engine, cf.i, cf.j, cf.init, n, mis)}
				vt.WriteFail(p.Test, c, f)
				t.Fatalf("%s", f.Msg)
			}
			n++
			ev.Case(c, st.heldInWindow, fmt.Sprintf("engine=%s", cf.engine))
			if n >= 3000 {
				exhaustive = false
				break
			}
		}
		ev.Add("configurations", 1)
	}
	if exhaustive && vt.Thorough() {
		ev.Exhaustive(int64(len(cfgs)))
	}
}
