package btchecks

import (
	"fmt"
	"io"
	"os"
	"path/filepath"
	"sort"
	"strings"
	"testing"
	"time"

	"github.com/fullstorydev/emulators/bigtable/bttest"
	"pgregory.net/rapid"

	"verif/internal/bt"
	"verif/internal/vt"
)

// C08 — disk storage recovers exactly the acknowledged state after a crash.

type C08Step struct {
	Op bt.Op `json:"op"`
	// Crash: "" none | "after" = kill right after the response | a named crash point inside the request
	Crash string `json:"crash,omitempty"`
	Hit   int    `json:"hit,omitempty"` // which occurrence of the point (1-based)
	// Racer: a second request issued while Op is parked at the point Crash (first hit); Op goes on as soon as the
	// racer has been acknowledged or is blocked. The process is then killed right after both responses.
	Racer *bt.Op `json:"racer,omitempty"`
}

type C08Case struct {
	Steps []C08Step `json:"steps"`
}

var c08Points = []string{"after", "after", "after", "disk.SetTableMeta.start", "disk.SetTableMeta.tmpWritten", "disk.SetTableMeta.renamed",
	"disk.Create.metaWritten", "leveldb.Clear.closed", "leveldb.Clear.reopened", "disk.newDb.nuked"}

// table ids become file and directory names of the disk engine: one that ends in a path separator is among them
var c08Tables = []string{"t", "slash/", "T-x.y"}

var c08Race = os.Getenv("VERIF_C08_RACE") == "1"

func genC08() *rapid.Generator[C08Case] {
	return rapid.Custom(func(t *rapid.T) C08Case {
		ctx := bt.ProgCtx{Tables: c08Tables[:rapid.IntRange(1, 3).Draw(t, "ntables")], Parents: c14Parents[:rapid.IntRange(1, 2).Draw(t, "nparents")],
			Fams: bt.AllFams, Keys: c14Keys, Quals: c14Quals, InvalidPct: 0, Admin: 7, Reads: 0}
		crashPct := rapid.SampledFrom([]int{10, 25, 60}).Draw(t, "crashPct")
		rctx := ctx
		rctx.Admin = 40 // racers: mostly admin requests
		first := C08Step{Op: bt.Op{K: "CreateTable", Table: ctx.Tables[0], Fams: []bt.FamDef{{Name: "f", GC: &bt.GC{K: "maxv", N: 2}}, {Name: "g"}}}}
		step := rapid.Custom(func(t *rapid.T) C08Step {
			s := C08Step{Op: bt.GenOp(ctx).Draw(t, "op")}
			if rapid.IntRange(0, 99).Draw(t, "crash") < crashPct {
				s.Crash = rapid.SampledFrom(c08Points).Draw(t, "point")
				s.Hit = rapid.IntRange(1, 2).Draw(t, "hit")
				// half of the time pick a crash point that this kind of request actually passes
				if rapid.Bool().Draw(t, "relevant") {
					switch {
					case s.Op.K == "ModifyCF":
						s.Crash, s.Hit = rapid.SampledFrom([]string{"disk.SetTableMeta.start", "disk.SetTableMeta.tmpWritten", "disk.SetTableMeta.renamed"}).Draw(t, "p1"), 1
					case s.Op.K == "CreateTable":
						s.Crash, s.Hit = rapid.SampledFrom([]string{"disk.SetTableMeta.start", "disk.SetTableMeta.tmpWritten", "disk.SetTableMeta.renamed", "disk.Create.metaWritten", "disk.newDb.nuked"}).Draw(t, "p2"), 1
					case s.Op.K == "DropRowRange" && s.Op.All:
						s.Crash, s.Hit = rapid.SampledFrom([]string{"leveldb.Clear.closed", "disk.newDb.nuked", "leveldb.Clear.reopened"}).Draw(t, "p3"), 1
					}
				}
			}
			// a fifth of the requests that rewrite the table metadata are parked there while a second admin request on the
			// same table is issued: both are acknowledged, then the process dies
			// opt-in (VERIF_C08_RACE=1): see DESIGN.md §6 round 6/7 — a thorough run with pairs gave reports that do not
			// reproduce and could not be classified in time, so the registered check does not draw them
			if c08Race && (s.Op.K == "ModifyCF" || s.Op.K == "CreateTable") && rapid.IntRange(0, 4).Draw(t, "race") == 0 {
				r := bt.GenOp(rctx).Draw(t, "racer")
				if r.K != "CreateTable" && r.K != "ModifyCF" && r.K != "DropRowRange" {
					r = bt.Op{K: "DeleteTable"} // half of the racers: the table is deleted under the parked request
				}
				if rapid.IntRange(0, 2).Draw(t, "sameTable") != 0 { // else: whichever table the racer drew for itself
					r.Table, r.Parent = s.Op.Table, s.Op.Parent
				}
				s.Racer = &r
				s.Crash, s.Hit = rapid.SampledFrom([]string{"disk.SetTableMeta.start", "disk.SetTableMeta.tmpWritten", "disk.SetTableMeta.renamed"}).Draw(t, "rp"), 1
			}
			return s
		})
		return C08Case{Steps: append([]C08Step{first}, rapid.SliceOfN(step, 5, 40).Draw(t, "steps")...)}
	})
}

type dirEnt struct {
	name string
	size int64
	mod  int64
}

func listTree(root string) []dirEnt {
	var out []dirEnt
	_ = filepath.Walk(root, func(p string, fi os.FileInfo, err error) error {
		if err != nil {
			return nil
		}
		rel, _ := filepath.Rel(root, p)
		out = append(out, dirEnt{rel, fi.Size(), fi.ModTime().UnixNano()})
		return nil
	})
	sort.Slice(out, func(i, j int) bool { return out[i].name < out[j].name })
	return out
}

func sameListing(a, b []dirEnt) bool {
	if len(a) != len(b) {
		return false
	}
	for i := range a {
		if a[i] != b[i] {
			return false
		}
	}
	return true
}

func copyTree(src, dst string) error {
	return filepath.Walk(src, func(p string, fi os.FileInfo, err error) error {
		if err != nil {
			if os.IsNotExist(err) {
				return nil
			}
			return err
		}
		rel, _ := filepath.Rel(src, p)
		target := filepath.Join(dst, rel)
		if fi.IsDir() {
			return os.MkdirAll(target, 0o777)
		}
		if !fi.Mode().IsRegular() {
			return nil
		}
		in, err := os.Open(p)
		if err != nil {
			if os.IsNotExist(err) {
				return nil
			}
			return err
		}
		defer in.Close()
		out, err := os.Create(target)
		if err != nil {
			return err
		}
		defer out.Close()
		_, err = io.Copy(out, in)
		return err
	})
}

// snapshot: point-in-time image of the storage root, as a kill -9 at this
// instant would leave it (completed writes are in the page cache / on disk).
// The copy is repeated until the listing is stable across the copy.
func snapshot(src string) (string, error) {
	for attempt := 0; attempt < 20; attempt++ {
		dst, err := os.MkdirTemp("", "btimage")
		if err != nil {
			return "", err
		}
		before := listTree(src)
		if err := copyTree(src, dst); err != nil {
			_ = os.RemoveAll(dst)
			return "", err
		}
		if sameListing(before, listTree(src)) {
			return dst, nil
		}
		_ = os.RemoveAll(dst)
	}
	return "", fmt.Errorf("storage directory never became stable")
}

func runC08(c C08Case, ev *vt.Ev) *vt.Failure {
	dir, err := os.MkdirTemp("", "btdisk")
	if err != nil {
		panic("HARNESS:" + err.Error())
	}
	defer func() { _ = os.RemoveAll(dir) }()
	s, err := bt.NewSrv("leveldb-disk", dir)
	if err != nil {
		return vt.Failf("C08", "server start: %v", err)
	}
	defer func() { s.Close() }()
	defer func() { bttest.VerifYield = nil }()
	m := bt.NewModel()
	parents := []string{"", "projects/p/instances/i2"}
	labels := map[string]bool{}
	restarts, adminOK, dataWrites := 0, 0, 0
	nontrivial := false
	for i := range c.Steps {
		st := &c.Steps[i]
		op := &st.Op
		var image string
		var snapErr error
		var racerRes *racing
		if st.Racer != nil {
			fired := false
			bttest.VerifYield = func(p string) {
				if p != st.Crash || fired {
					return
				}
				fired = true
				racerRes = raceAt(s, st.Racer)
			}
		} else if st.Crash != "" && st.Crash != "after" {
			hits := 0
			bttest.VerifYield = func(p string) {
				if p == st.Crash && image == "" && snapErr == nil {
					hits++
					if hits == st.Hit {
						image, snapErr = snapshot(dir)
					}
				}
			}
		}
		before := m.Clone()
		res := s.Exec(op)
		bttest.VerifYield = nil
		if snapErr != nil {
			panic("HARNESS: snapshot: " + snapErr.Error())
		}
		if st.Racer != nil {
			if racerRes == nil { // the request never reached the point (refused up front): nothing raced
				st.Racer = nil
				st.Crash = ""
			} else {
				if rr := racerRes.wait(); rr == nil || strings.HasPrefix(rr.Panic, "HANG") {
					return fail("C08", i, st.Racer, "a request issued while another one was rewriting the table metadata was never answered")
				}
			}
		}
		var mis string
		if st.Racer != nil {
			// two acknowledged concurrent requests: the model follows whichever serial order explains both responses;
			// judging the pair itself is the business of C06/C14, here only the recovery of what was acknowledged is
			rr := racerRes.wait()
			ab, ba := m.Clone(), m.Clone()
			m1 := ab.Step(op, res)
			if m1 == "" {
				m1 = ab.Step(st.Racer, rr)
			}
			m2 := ba.Step(st.Racer, rr)
			if m2 == "" {
				m2 = ba.Step(op, res)
			}
			switch {
			case m1 == "":
				m = ab
			case m2 == "":
				m = ba
			default:
				ev.Case(c, false, "concurrent-pair-without-serial-explanation(abandoned)")
				return nil
			}
			labels["second-request-while-metadata-rewrite-parked:"+st.Racer.K] = true
			if st.Racer.FullName() != op.FullName() {
				labels["second-request-on-another-table"] = true
			}
			if rr.Code == 0 && res.Code == 0 {
				labels["both-concurrent-requests-acknowledged"] = true
			}
			st2 := *st
			st2.Crash = "after"
			st = &st2
		} else {
			mis = m.Step(op, res)
		}
		if strings.Contains(mis, "UNSPEC:") {
			resyncRow(s, m, op)
			mis = ""
		}
		if mis != "" {
			return fail("C08", i, op, mis)
		}
		if res.Code == 0 {
			switch op.K {
			case "CreateTable", "DeleteTable", "ModifyCF", "DropRowRange":
				adminOK++
			case "MutateRow", "MutateRows", "RMW", "CheckAndMutate":
				dataWrites++
			}
		}
		inflight := image != ""
		if st.Crash == "after" {
			image, snapErr = snapshot(dir)
			if snapErr != nil {
				panic("HARNESS: snapshot: " + snapErr.Error())
			}
		}
		if image == "" {
			continue
		}
		// the process dies here: discard the old server, start a new one on the image
		s.Close()
		_ = os.RemoveAll(dir)
		dir = image
		ns, err := bt.NewSrv("leveldb-disk", dir)
		if err != nil {
			return fail("C08", i, op, fmt.Sprintf("restart on the image taken at %q failed: %v", st.Crash, err))
		}
		s = ns
		restarts++
		labels["crash@"+st.Crash] = true
		if op.K == "DeleteTable" && res.Code == 0 {
			labels["restart-after-DeleteTable"] = true
		}
		if adminOK >= 1 && dataWrites >= 3 {
			nontrivial = true
		}
		misAfter := observeAll(s, m, parents, false)
		if misAfter != "" {
			if !inflight {
				return fail("C08", i, op, fmt.Sprintf("after a kill right after the response and a restart: %s", misAfter))
			}
			// crash inside the request: the state before the request is acceptable as well
			if misBefore := observeAll(s, before, parents, false); misBefore != "" {
				// open finding D21 (see known_findings.json): a request that drops AND re-creates a family, killed
				// after the new definition was persisted but before the purge: final schema, old cells still there
				if sigD21(s, before, m, op, st.Crash, parents) {
					if vt.Replay() != "" {
						return &vt.Failure{Property: "C08", Sig: "D21", Msg: fmt.Sprintf("step %d (ModifyCF drop+create of one family) killed at %s: after restart the new definition is served with the old cells of the re-created family", i, st.Crash)}
					}
					ev.KnownHit("D21")
					return nil // abandon the case: the search continues behind the known finding
				}
				return fail("C08", i, op, fmt.Sprintf("after a kill at %s (hit %d) and a restart the state is neither the one after the request (%s) nor the one before it (%s)", st.Crash, st.Hit, misAfter, misBefore))
			}
			m = before
			labels["in-flight-request-absent-after-restart"] = true
		} else if inflight {
			labels["in-flight-request-present-after-restart"] = true
		}
	}
	if mis := observeAll(s, m, parents, false); mis != "" {
		return fail("C08", len(c.Steps)-1, nil, "final state: "+mis)
	}
	if restarts >= 2 {
		labels["restarts>=2"] = true
	}
	var ls []string
	for l := range labels {
		ls = append(ls, l)
	}
	ev.Case(c, nontrivial, ls...)
	return nil
}

// racing: a request running beside one that is parked at a yield point
type racing struct {
	done chan struct{}
	res  *bt.Result
}

func (r *racing) wait() *bt.Result {
	vt.Await(r.done, 120*time.Second, nil, "request issued beside a parked one") // s.Exec detects hangs itself
	return r.res
}

// raceAt issues op and returns once it has been answered or sits in a blocking wait (20 samples, 1 ms apart). A wrong
// guess only makes the interleaving less interesting: the oracle holds for every interleaving.
func raceAt(s *bt.Srv, op *bt.Op) *racing {
	r := &racing{done: make(chan struct{})}
	gid := make(chan int64, 1)
	inline := *s
	inline.Inline = true
	go func() {
		gid <- vt.Goid()
		r.res = inline.Exec(op)
		close(r.done)
	}()
	id := <-gid
	blocked := 0
	for i := 0; i < 5000 && blocked < 20; i++ {
		select {
		case <-r.done:
			return r
		case <-time.After(time.Millisecond):
		}
		if st := vt.GoroutineState(id); st == "semacquire" || strings.HasPrefix(st, "sync.") {
			blocked++
		} else {
			blocked = 0
		}
	}
	return r
}

func TestC08(t *testing.T) {
	vt.Prop[C08Case]{ID: "C08", Test: "TestC08",
		Rule: "fault enumeration in-process: rapid-generated admin+data programs (5-40 requests over <=3 tables in <=2 parents: CreateTable with GC rules, ModifyColumnFamilies create/update/drop, DeleteTable, re-create, MutateRow(s), ReadModifyWrite, CheckAndMutate, DropRowRange prefix/all) on the disk engine with a crash decision per request: kill right after the response, or at the 1st/2nd hit of a guarded crash point inside the request (SetTableMeta start / temp file written / renamed, Create after the metadata write, Clear after close / after reopen, directory removed); a crash = stable point-in-time copy of the storage root on which a NEW server is started (repeated cycles); [only with VERIF_C08_RACE=1, not in the registered check:] a fifth of the metadata-rewriting requests are instead parked at one of the SetTableMeta points while a second request on the same table (two thirds) or on any table of the program (DeleteTable, ModifyColumnFamilies, DropRowRange or CreateTable) runs until it is answered or blocked, then both finish and the process is killed; oracle = registry/data model of acknowledged requests (for a concurrent pair: the serial order that explains both responses), an in-flight request must be wholly present or wholly absent; non-trivial = a restart after >=1 admin change and >=3 data writes",
		Gen:  genC08(), Run: runC08}.Main(t)
}

// sigD21: the narrow signature of open finding D21. Input side: a ModifyColumnFamilies request that both drops
// and creates the same family id, killed at disk.SetTableMeta.renamed. Output side: the state served after the
// restart is exactly "definition after the request + rows as they were before it, restricted to the families of
// the new definition" — i.e. only the purge of the re-created family is missing.
func sigD21(s bt.Execer, before, after *bt.Model, op *bt.Op, crash string, parents []string) bool {
	if op.K != "ModifyCF" || crash != "disk.SetTableMeta.renamed" {
		return false
	}
	dropped, recreated := map[string]bool{}, false
	for _, m := range op.Mods {
		if m.K == "drop" {
			dropped[m.ID] = true
		}
		if m.K == "create" && dropped[m.ID] {
			recreated = true
		}
	}
	if !recreated {
		return false
	}
	hybrid := after.Clone()
	name := op.FullName()
	bt0, at := before.Tables[name], hybrid.Tables[name]
	if bt0 == nil || at == nil {
		return false
	}
	at.Rows = map[string]bt.MRow{}
	for k, r := range bt0.Rows {
		nr := bt.MRow{}
		for f, qs := range r.Clone() {
			if _, ok := at.Fams[f]; ok {
				nr[f] = qs
			}
		}
		if !nr.Empty() {
			at.Rows[k] = nr
		}
	}
	return observeAll(s, hybrid, parents, false) == ""
}
