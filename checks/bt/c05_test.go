package btchecks

import (
	"fmt"
	"testing"

	"pgregory.net/rapid"

	"verif/internal/bt"
	"verif/internal/vt"
)

// C05 — row filters compute the documented filter semantics.
//
// Metamorphic oracle: the emulator's own unfiltered read of the table is the
// input of an independent filter evaluator; the filtered read must equal the
// evaluator's output.

type C05Row struct {
	Key   bt.BS     `json:"key"`
	Cells []bt.Cell `json:"cells"`
}

type C05Case struct {
	Engine  string      `json:"engine"`
	Fams    []string    `json:"fams"`
	Rows    []C05Row    `json:"rows"`
	Filters []bt.Filter `json:"filters"`
}

var c05Quals = []bt.BS{"q1", "q2", "", "q\x00", "\xff"}
var c05Vals = []bt.BS{"v1", "v2", "", "x\ny", "\x00", "v", "\xc3\xa9"}
var c05Keys = []bt.BS{"r1", "r2", "r1\x00", "a", "\xff", "r\n"}

func genC05Rows(fams []string) *rapid.Generator[[]C05Row] {
	return rapid.Custom(func(t *rapid.T) []C05Row {
		keys := rapid.SliceOfNDistinct(rapid.SampledFrom(c05Keys), 1, 6, func(b bt.BS) bt.BS { return b }).Draw(t, "keys")
		var rows []C05Row
		for _, k := range keys {
			r := C05Row{Key: k}
			seen := map[string]bool{}
			n := rapid.IntRange(1, 8).Draw(t, "ncells")
			for i := 0; i < n; i++ {
				c := bt.Cell{Fam: rapid.SampledFrom(fams).Draw(t, "f"), Qual: rapid.SampledFrom(c05Quals[:3+len(fams)-1]).Draw(t, "q"),
					TS: rapid.SampledFrom([]int64{1000, 2000, 3000, 4000}).Draw(t, "ts"), Val: rapid.SampledFrom(c05Vals).Draw(t, "v")}
				id := fmt.Sprintf("%s|%s|%d", c.Fam, c.Qual, c.TS)
				if seen[id] {
					continue
				}
				seen[id] = true
				r.Cells = append(r.Cells, c)
			}
			rows = append(rows, r)
		}
		return rows
	})
}

func genC05(depth int) *rapid.Generator[C05Case] {
	return rapid.Custom(func(t *rapid.T) C05Case {
		c := C05Case{Engine: rapid.SampledFrom(bt.Engines).Draw(t, "engine")}
		c.Fams = bt.AllFams[:rapid.IntRange(1, 3).Draw(t, "nfams")]
		c.Rows = genC05Rows(c.Fams).Draw(t, "rows")
		o := bt.FilterOpts{Fams: c.Fams, Keys: c05Keys, Quals: c05Quals, Vals: c05Vals,
			InvalidPct: rapid.SampledFrom([]int{0, 0, 3, 10}).Draw(t, "invalidPct"), Sample: rapid.IntRange(0, 3).Draw(t, "sample") == 0}
		c.Filters = rapid.SliceOfN(bt.GenFilter(depth, o), 1, 6).Draw(t, "filters")
		return c
	})
}

// c05Load creates the table and writes the rows; returns the unfiltered read.
func c05Load(s *bt.Srv, fams []string, rows []C05Row) ([]bt.RowOut, *vt.Failure) {
	if f := mustCreate(s, nil, tbl, fams); f != nil {
		f.Property = "C05"
		return nil, f
	}
	for _, r := range rows {
		var muts []bt.Mut
		for _, c := range r.Cells {
			muts = append(muts, bt.Mut{K: "set", Fam: c.Fam, Qual: c.Qual, TS: c.TS, Val: c.Val})
		}
		if len(muts) == 0 {
			continue
		}
		if res := s.Exec(&bt.Op{K: "MutateRow", Table: tbl, Key: r.Key, Muts: muts}); !res.OK() {
			return nil, vt.Failf("C05", "setup write failed: code %d %s %s", res.Code, res.Msg, res.Panic)
		}
	}
	all := s.ReadAll("", tbl)
	if !all.OK() || all.StreamErr != "" {
		return nil, vt.Failf("C05", "unfiltered read failed: code %d %s %s %s", all.Code, all.Msg, all.StreamErr, all.Panic)
	}
	for _, r := range all.Rows {
		if sh := bt.CheckShape(r, true); sh != "" {
			return nil, vt.Failf("C05", "unfiltered read malformed: %s", sh)
		}
	}
	return all.Rows, nil
}

type c05Stats struct {
	nontrivial bool
	labels     map[string]bool
}

// c05CheckFilter runs one filtered read and compares it with the evaluator.
func c05CheckFilter(s *bt.Srv, cands []bt.RowOut, f *bt.Filter, st *c05Stats) string {
	got := s.Exec(&bt.Op{K: "ReadRows", Table: tbl, Filter: f})
	strict := !bt.HasInterleave(f)
	ns := bt.CountSampleNodes(f)
	kinds := map[string]bool{}
	f.Kinds(kinds)
	for k := range kinds {
		st.labels["kind="+k] = true
	}
	if ns == 0 {
		e := bt.ExpectRead(cands, nil, f, 0, false, nil)
		if mis := e.Check(got, strict); mis != "" {
			return mis
		}
		if e.Unspec {
			st.labels["unspecified-by-docs"] = true
			return ""
		}
		if e.HardInvalid {
			st.labels["invalid-node-reached"] = true
			st.nontrivial = true
		}
		if len(cands) >= 2 {
			// the same filter over a row set of single keys (one scan piece per row): an invalid argument reached
			// on one row must fail the read whatever the pieces after it contain
			rs := &bt.RowSet{}
			for _, c := range cands {
				rs.Keys = append(rs.Keys, c.Key)
			}
			got2 := s.Exec(&bt.Op{K: "ReadRows", Table: tbl, Rows: rs, Filter: f})
			e2 := bt.ExpectRead(cands, rs, f, 0, false, nil)
			if mis := e2.Check(got2, strict); mis != "" {
				return "read over a row set of single keys: " + mis
			}
			st.labels["also-read-per-key-row-set"] = true
		}
		if f.Depth() >= 2 {
			for i, r := range e.Rows {
				_ = i
				for _, c := range cands {
					if c.Key == r.Key && len(r.Cells) < len(c.Cells) {
						st.nontrivial = true
						st.labels["partial-row-output"] = true
					}
				}
			}
		}
		return ""
	}
	// sampled: each row is one of the outputs obtained by fixing every sample node
	st.labels["with-sample-node"] = true
	if got.Panic != "" {
		return "panic: " + got.Panic
	}
	if got.StreamErr != "" {
		return "malformed chunk stream: " + got.StreamErr
	}
	byKey := map[bt.BS]*bt.RowOut{}
	for i := range got.Rows {
		if i > 0 && !(got.Rows[i-1].Key < got.Rows[i].Key) {
			return "rows not in ascending order"
		}
		byKey[got.Rows[i].Key] = &got.Rows[i]
	}
	soft := bt.StaticInvalid(f)
	canFailAny := false
	for _, c := range cands {
		okAny, canFail, allFail := false, false, true
		var alts []string
		for mask := 0; mask < 1<<ns; mask++ {
			sm := make([]bool, ns)
			for b := 0; b < ns; b++ {
				sm[b] = mask&(1<<b) != 0
			}
			er := bt.EvalFilter(f, c.Key, c.Cells, sm)
			if er.Unspec {
				return ""
			}
			if er.ZeroCount || er.Status == bt.EvInvalidLazy {
				soft = true
			}
			if er.Status == bt.EvInvalid {
				canFail = true
				continue
			}
			allFail = false
			g := byKey[c.Key]
			if len(er.Cells) == 0 {
				if g == nil {
					okAny = true
				}
			} else if g != nil && bt.SameCells(g.Cells, er.Cells) == "" && bt.CheckShape(*g, strict) == "" {
				okAny = true
			}
			alts = append(alts, fmt.Sprintf("%d cells", len(er.Cells)))
		}
		canFailAny = canFailAny || canFail
		if got.Code == 0 {
			if allFail {
				return fmt.Sprintf("row %q: every sampling outcome reaches an invalid filter argument, but the read returned OK", string(c.Key))
			}
			if !okAny {
				return fmt.Sprintf("row %q with a sample filter: output matches none of the all-or-nothing alternatives %v", string(c.Key), alts)
			}
		} else if byKey[c.Key] != nil && !okAny {
			return fmt.Sprintf("row %q (streamed before the error): output matches none of the alternatives %v", string(c.Key), alts)
		}
	}
	if got.Code != 0 && !(got.Code == bt.CodeInvalidArg && (canFailAny || soft)) {
		return fmt.Sprintf("unexpected status %d (%s)", got.Code, got.Msg)
	}
	return ""
}

func runC05(c C05Case, ev *vt.Ev) *vt.Failure {
	s, err := bt.NewSrv(c.Engine, "")
	if err != nil {
		return vt.Failf("C05", "server start: %v", err)
	}
	defer s.Close()
	cands, f := c05Load(s, c.Fams, c.Rows)
	if f != nil {
		return f
	}
	st := &c05Stats{labels: map[string]bool{"engine=" + c.Engine: true}}
	for i := range c.Filters {
		if mis := c05CheckFilter(s, cands, &c.Filters[i], st); mis != "" {
			return vt.Failf("C05", "filter %d on %s: %s", i, c.Engine, mis)
		}
	}
	var ls []string
	for l := range st.labels {
		ls = append(ls, l)
	}
	ev.Case(c, st.nontrivial, ls...)
	return nil
}

func TestC05(t *testing.T) {
	depth := 3
	if vt.Thorough() {
		depth = 4
	}
	vt.Prop[C05Case]{ID: "C05", Test: "TestC05",
		Rule: "rapid-generated tables (1-6 rows, 1-3 families, binary qualifiers/values, 1-4 versions) x 1-6 filter trees from a grammar (depth<=3 quick / 4 thorough; regexes from an AST matched by an own backtracking matcher; invalid arguments; <=2 sample nodes) on 3 engines; oracle = independent evaluator applied to the emulator's own unfiltered read; non-trivial = depth>=2 tree that removed some but not all cells of a row, or an invalid node reached on a row with cells",
		Gen:  genC05(depth), Run: runC05}.Main(t)
}

// ---------------------------------------------------------------- exhaustive part

func c05lit(s string) *bt.Rx { return &bt.Rx{K: "lit", Lit: bt.BS(s)} }

var c05Basis = []bt.Filter{
	{K: "pass", Flag: true}, {K: "pass", Flag: false}, {K: "block", Flag: true}, {K: "block", Flag: false},
	{K: "rowkey", Rx: c05lit("r1")},
	{K: "rowkey", Rx: &bt.Rx{K: "cat", Subs: []bt.Rx{*c05lit("r"), {K: "star", Subs: []bt.Rx{{K: "dot"}}}}}},
	{K: "family", Rx: c05lit("f")},
	{K: "family", Rx: &bt.Rx{K: "alt", Subs: []bt.Rx{*c05lit("g"), *c05lit("h")}}},
	{K: "qual", Rx: c05lit("q1")},
	{K: "qual", Rx: &bt.Rx{K: "star", Subs: []bt.Rx{{K: "class", Set: "q2"}}}},
	{K: "value", Rx: c05lit("v1")},
	{K: "value", Rx: &bt.Rx{K: "star", Subs: []bt.Rx{{K: "dot"}}}},
	{K: "value", Raw: "["},
	{K: "colrange", Fam: "f", S: bt.Bound{K: 2, V: "q1"}, E: bt.Bound{K: 1, V: "q2"}},
	{K: "colrange", Fam: "g", E: bt.Bound{K: 2, V: "q1"}},
	{K: "valrange", S: bt.Bound{K: 1, V: "v1"}},
	{K: "tsrange", TS: 1000, TE: 3000},
	{K: "tsrange", TS: 2000, TE: 0},
	{K: "tsrange", TS: 1500, TE: 0},
	{K: "rowlimit", N: 1}, {K: "rowlimit", N: -1},
	{K: "rowoffset", N: 1},
	{K: "collimit", N: 1}, {K: "collimit", N: 0},
	{K: "strip", Flag: true},
	{K: "label", Label: "l1"},
}

var c05Fixed = []C05Row{
	{Key: "r1", Cells: []bt.Cell{{Fam: "f", Qual: "q1", TS: 3000, Val: "v1"}, {Fam: "f", Qual: "q1", TS: 2000, Val: "v2"}, {Fam: "f", Qual: "q1", TS: 1000, Val: "v1"},
		{Fam: "f", Qual: "q2", TS: 1000, Val: "x\ny"}, {Fam: "g", Qual: "q1", TS: 2000, Val: "v1"}}},
	{Key: "r2", Cells: []bt.Cell{{Fam: "f", Qual: "q2", TS: 2000, Val: "v2"}, {Fam: "h", Qual: "", TS: 1000, Val: ""}}},
	{Key: "r3", Cells: []bt.Cell{{Fam: "g", Qual: "q1", TS: 3000, Val: "v3"}, {Fam: "g", Qual: "q1", TS: 1000, Val: "v1"}}},
	{Key: "r1\x00", Cells: []bt.Cell{{Fam: "f", Qual: "q1", TS: 1000, Val: "v1"}}},
}

type C05Enum struct {
	Engine string    `json:"engine"`
	Index  int64     `json:"index"`
	Filter bt.Filter `json:"filter"`
}

const c05N = 26
const c05Space = c05N + c05N*c05N + c05N*c05N + c05N*c05N*c05N

func c05Filter(i int64) bt.Filter {
	b := c05Basis
	switch {
	case i < c05N:
		return b[i]
	case i < c05N+c05N*c05N:
		i -= c05N
		return bt.Filter{K: "chain", Subs: []bt.Filter{b[i/c05N], b[i%c05N]}}
	case i < c05N+2*c05N*c05N:
		i -= c05N + c05N*c05N
		return bt.Filter{K: "interleave", Subs: []bt.Filter{b[i/c05N], b[i%c05N]}}
	default:
		i -= c05N + 2*c05N*c05N
		p, tr, fa := b[i/(c05N*c05N)], b[(i/c05N)%c05N], b[i%c05N]
		return bt.Filter{K: "cond", Pred: &p, True: &tr, False: &fa}
	}
}

var c05EnumSrv = map[string]*bt.Srv{}
var c05EnumCands = map[string][]bt.RowOut{}

func runC05Enum(c C05Enum, ev *vt.Ev) *vt.Failure {
	s := c05EnumSrv[c.Engine]
	if s == nil {
		var err error
		s, err = bt.NewSrv(c.Engine, "")
		if err != nil {
			return vt.Failf("C05", "server start: %v", err)
		}
		cands, f := c05Load(s, bt.AllFams, c05Fixed)
		if f != nil {
			return f
		}
		c05EnumSrv[c.Engine] = s
		c05EnumCands[c.Engine] = cands
	}
	st := &c05Stats{labels: map[string]bool{"engine=" + c.Engine: true}}
	if mis := c05CheckFilter(s, c05EnumCands[c.Engine], &c.Filter, st); mis != "" {
		return vt.Failf("C05", "basis filter #%d on %s: %s", c.Index, c.Engine, mis)
	}
	var ls []string
	for l := range st.labels {
		ls = append(ls, l)
	}
	ev.Case(c, st.nontrivial, ls...)
	return nil
}

func TestC05Enum(t *testing.T) {
	p := vt.Prop[C05Enum]{ID: "C05", Test: "TestC05Enum",
		Rule: "enumeration of a 26-leaf basis at boundary arguments: every leaf alone, all 26^2 chains, all 26^2 interleaves and all 26^3 conditions (18 954 filters) on a fixed 4-row table, 3 engines; thorough = all (exhaustive), quick = residue class index mod 8 == VERIF_SEED mod 8; same evaluator oracle; non-trivial as in TestC05",
		Run:  runC05Enum}
	if vt.Replay() != "" {
		p.Gen = rapid.Just(C05Enum{})
		p.Main(t)
		return
	}
	ev := vt.NewEv(p.ID, p.Test, p.Rule)
	defer ev.Flush()
	stride, offset := int64(8), vt.Seed()%8
	if vt.Thorough() {
		stride, offset = 1, 0
		ev.Exhaustive(c05Space * 3)
	}
	total := (c05Space - offset + stride - 1) / stride
	for j := int64(vt.Shard()); j < total; j += int64(vt.NShards()) {
		i := j*stride + offset
		for _, eng := range bt.Engines {
			c := C05Enum{Engine: eng, Index: i, Filter: c05Filter(i)}
			if f := p.Run(c, ev); f != nil {
				vt.WriteFail(p.Test, c, f)
				t.Fatalf("%s", f.Msg)
			}
		}
	}
}
