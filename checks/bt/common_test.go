package btchecks

import (
	"context"
	"fmt"
	"os"
	"testing"

	"verif/internal/bt"
	"verif/internal/vt"
)

func TestMain(m *testing.M) {
	// scratch data lives under $VERIF_TMP (set by the driver), never in the repo
	if d := os.Getenv("VERIF_TMP"); d != "" {
		_ = os.MkdirAll(d, 0o777)
		os.Setenv("TMPDIR", d)
	}
	os.Exit(m.Run())
}

const tbl = "t"

// mustCreate creates table t with the given families (no GC rules).
func mustCreate(s *bt.Srv, m *bt.Model, table string, fams []string) *vt.Failure {
	op := &bt.Op{K: "CreateTable", Table: table}
	for _, f := range fams {
		op.Fams = append(op.Fams, bt.FamDef{Name: f})
	}
	res := s.Exec(op)
	if m != nil {
		if mis := m.Step(op, res); mis != "" {
			return &vt.Failure{Msg: "setup: " + mis}
		}
	} else if !res.OK() {
		return &vt.Failure{Msg: fmt.Sprintf("setup: CreateTable failed: %+v", res)}
	}
	return nil
}

// verifyRow reads one row unfiltered and compares it with the model.
func verifyRow(s *bt.Srv, t *bt.MTable, table string, key bt.BS) string {
	got := s.ReadKey("", table, key)
	var want []bt.RowOut
	if r, ok := t.Rows[string(key)]; ok && !r.Empty() {
		want = []bt.RowOut{{Key: key, Cells: r.Cells()}}
	}
	e := bt.ReadExpect{Rows: want}
	if mis := e.Check(got, true); mis != "" {
		return fmt.Sprintf("read of row %q: %s", string(key), mis)
	}
	return ""
}

func verifyScan(s bt.Execer, t *bt.MTable, parent, table string) string {
	got := bt.ScanAll(s, parent, table)
	if mis := t.VerifyScan(got); mis != "" {
		return "full scan: " + mis
	}
	return ""
}

func fail(prop string, step int, op *bt.Op, msg string) *vt.Failure {
	if op != nil {
		return vt.Failf(prop, "step %d (%s): %s", step, op.K, msg)
	}
	return vt.Failf(prop, "%s", msg)
}

func nil2ctx() context.Context { return context.Background() }
