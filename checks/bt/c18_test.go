package btchecks

import (
	"fmt"
	"os"
	"strings"
	"sync"
	"sync/atomic"
	"testing"
	"time"

	"pgregory.net/rapid"

	"verif/internal/bt"
	"verif/internal/vt"
)

// C18 — scans stay sane while the table is being written (leveldb engines).

type C18Write struct {
	K   string `json:"k"`           // set | del | rmw | ins | multi | delrun
	Row int    `json:"row"`         // row index (ins: a new key right after that row)
	N   int    `json:"n,omitempty"` // delrun: that many consecutive rows starting at Row are deleted by one MutateRows
}

type C18Case struct {
	Engine string       `json:"engine"`
	Wide   bool         `json:"wide"` // 5 cells per row instead of 1
	NRows  int          `json:"nrows"`
	From   int          `json:"from"` // scan range [From, To) in row indices; To<=0 = whole table
	To     int          `json:"to"`
	Hole   int          `json:"hole,omitempty"`
	Gaps   [][]C18Write `json:"gaps"` // writes performed while the scan is inside its k-th Send
	Free   bool         `json:"free,omitempty"`
	Big    bool         `json:"big,omitempty"`    // ~4 KB values: the table outgrows the write buffer, the scan reads leveldb table files
	Reopen bool         `json:"reopen,omitempty"` // disk engine: closed and reopened before the scan (data in table files)
}

func c18Key(i int) bt.BS       { return bt.BS(fmt.Sprintf("r%05d", i)) }
func c18InsKey(i, g int) bt.BS { return bt.BS(fmt.Sprintf("r%05d-ins%d", i, g)) }

func genC18(free bool) *rapid.Generator[C18Case] {
	return rapid.Custom(func(t *rapid.T) C18Case {
		c := C18Case{Engine: rapid.SampledFrom([]string{"leveldb-mem", "leveldb-disk"}).Draw(t, "engine"), Wide: rapid.Bool().Draw(t, "wide"), Free: free}
		if c.Wide {
			c.NRows = rapid.IntRange(250, 600).Draw(t, "nrows")
		} else {
			c.NRows = rapid.IntRange(1100, 3000).Draw(t, "nrows")
		}
		if rapid.Bool().Draw(t, "ranged") {
			c.From = rapid.IntRange(0, c.NRows/4).Draw(t, "from")
			c.To = rapid.IntRange(c.NRows*3/4, c.NRows).Draw(t, "to")
			c.Hole = rapid.SampledFrom([]int{0, 0, 1, 50}).Draw(t, "hole") // >0: the range is split in two with a gap of that many rows
		}
		w := rapid.Custom(func(t *rapid.T) C18Write {
			w := C18Write{K: rapid.SampledFrom([]string{"set", "set", "del", "rmw", "ins", "multi", "rmwbad", "setbad", "delrun"}).Draw(t, "k"), Row: rapid.IntRange(0, c.NRows-1).Draw(t, "row")}
			if w.K == "delrun" {
				w.N = rapid.IntRange(2, 400).Draw(t, "n")
			}
			return w
		})
		c.Gaps = rapid.SliceOfN(rapid.SliceOfN(w, 0, 6), 1, 7).Draw(t, "gaps")
		if !c.Wide {
			c.Big = rapid.IntRange(0, 4).Draw(t, "big") == 0
		}
		if c.Engine == "leveldb-disk" {
			c.Reopen = rapid.IntRange(0, 2).Draw(t, "reopen") == 0
		}
		return c
	})
}

var c18Fams = map[string]*bt.GC{"f": nil}

type c18Model struct {
	mu       sync.Mutex
	versions map[string][]bt.MRow // every content the row had (nil entry = absent); index 0 = state at scan start
}

func (m *c18Model) cur(k string) bt.MRow {
	v := m.versions[k]
	if len(v) == 0 {
		return nil
	}
	return v[len(v)-1]
}

func (m *c18Model) apply(op *bt.Op) {
	m.mu.Lock()
	defer m.mu.Unlock()
	one := func(key bt.BS, muts []bt.Mut, rules []bt.RMWRule) {
		k := string(key)
		cur := m.cur(k)
		if cur == nil {
			cur = bt.MRow{}
		}
		if len(m.versions[k]) == 0 {
			m.versions[k] = append(m.versions[k], nil) // absent at scan start
		}
		var nr bt.MRow
		if rules != nil {
			nr, _, _ = bt.ApplyRMW(c18Fams, cur, rules, 5000)
		} else {
			nr, _ = bt.ApplyMuts(c18Fams, cur, muts, 5000)
		}
		if nr.Empty() {
			nr = nil
		}
		m.versions[k] = append(m.versions[k], nr)
	}
	switch op.K {
	case "MutateRow":
		one(op.Key, op.Muts, nil)
	case "RMW":
		one(op.Key, nil, op.Rules)
	case "MutateRows":
		for _, e := range op.Entries {
			one(e.Key, e.Muts, nil)
		}
	}
}

// mustFail: whether the sequential model refuses op in the row's current state.
func (m *c18Model) mustFail(op *bt.Op) bool {
	m.mu.Lock()
	defer m.mu.Unlock()
	cur := m.cur(string(op.Key))
	if cur == nil {
		cur = bt.MRow{}
	}
	switch op.K {
	case "RMW":
		_, _, v := bt.ApplyRMW(c18Fams, cur, op.Rules, 5000)
		return v == bt.VErr
	case "MutateRow":
		_, v := bt.ApplyMuts(c18Fams, cur, op.Muts, 5000)
		return v == bt.VErr
	}
	return false
}

func c18Op(w C18Write, gap int) *bt.Op {
	val := bt.BS(fmt.Sprintf("g%d", gap))
	switch w.K {
	case "set":
		return &bt.Op{K: "MutateRow", Table: tbl, Key: c18Key(w.Row), Muts: []bt.Mut{{K: "set", Fam: "f", Qual: "c0", TS: 1000, Val: val}, {K: "set", Fam: "f", Qual: "w", TS: 2000, Val: val}}}
	case "del":
		return &bt.Op{K: "MutateRow", Table: tbl, Key: c18Key(w.Row), Muts: []bt.Mut{{K: "delrow"}}}
	case "rmw":
		return &bt.Op{K: "RMW", Table: tbl, Key: c18Key(w.Row), Rules: []bt.RMWRule{{Fam: "f", Qual: "log", Append: val}}}
	case "rmwbad": // must be refused (increment of a value that is not 8 bytes long) and change nothing
		return &bt.Op{K: "RMW", Table: tbl, Key: c18Key(w.Row), Rules: []bt.RMWRule{{Fam: "f", Qual: "log", Append: val}, {Fam: "f", Qual: "c0", Inc: true, Amount: 1}}}
	case "setbad": // must be refused (unknown family after a valid mutation) and change nothing
		return &bt.Op{K: "MutateRow", Table: tbl, Key: c18Key(w.Row), Muts: []bt.Mut{{K: "set", Fam: "f", Qual: "c0", TS: 1000, Val: val}, {K: "set", Fam: "nofam", Qual: "x", TS: 1000, Val: val}}}
	case "delrun": // a client clearing a run of adjacent rows (some of them not yet streamed, some perhaps gone already)
		var es []bt.Entry
		for i := 0; i < w.N; i++ {
			es = append(es, bt.Entry{Key: c18Key(w.Row + i), Muts: []bt.Mut{{K: "delrow"}}})
		}
		return &bt.Op{K: "MutateRows", Table: tbl, Entries: es}
	case "ins":
		return &bt.Op{K: "MutateRow", Table: tbl, Key: c18InsKey(w.Row, gap), Muts: []bt.Mut{{K: "set", Fam: "f", Qual: "c0", TS: 1000, Val: val}}}
	default:
		return &bt.Op{K: "MutateRows", Table: tbl, Entries: []bt.Entry{
			{Key: c18Key(w.Row), Muts: []bt.Mut{{K: "set", Fam: "f", Qual: "c0", TS: 1000, Val: val}, {K: "set", Fam: "f", Qual: "m", TS: 1000, Val: val}}},
			{Key: c18Key((w.Row + 7) % 100000), Muts: []bt.Mut{{K: "set", Fam: "f", Qual: "c0", TS: 1000, Val: val}, {K: "set", Fam: "f", Qual: "m", TS: 1000, Val: val}}}}}
	}
}

func runC18(c C18Case, ev *vt.Ev) *vt.Failure {
	if c.Free {
		vt.WriteCurrent("TestC18Race", "C18", c)
		defer vt.ClearCurrent("TestC18Race")
	}
	dir := ""
	if c.Reopen {
		d, err := os.MkdirTemp("", "c18")
		if err != nil {
			return vt.Failf("C18", "harness: %v", err)
		}
		defer os.RemoveAll(d)
		dir = d
	}
	s, err := bt.NewSrv(c.Engine, dir)
	if err != nil {
		return vt.Failf("C18", "server start: %v", err)
	}
	defer func() { s.Close() }()
	s.SetClock(5000)
	if f := mustCreate(s, nil, tbl, []string{"f"}); f != nil {
		f.Property = "C18"
		return f
	}
	m := &c18Model{versions: map[string][]bt.MRow{}}
	cells := 1
	if c.Wide {
		cells = 5
	}
	initVal := "init"
	if c.Big {
		initVal += strings.Repeat("v", 4200)
	}
	var entries []bt.Entry
	for i := 0; i < c.NRows; i++ {
		row := bt.MRow{"f": {}}
		var muts []bt.Mut
		for j := 0; j < cells; j++ {
			q := fmt.Sprintf("c%d", j)
			row["f"][q] = map[int64]string{1000: initVal}
			muts = append(muts, bt.Mut{K: "set", Fam: "f", Qual: bt.BS(q), TS: 1000, Val: bt.BS(initVal)})
		}
		m.versions[string(c18Key(i))] = []bt.MRow{row}
		entries = append(entries, bt.Entry{Key: c18Key(i), Muts: muts})
		if len(entries) == 500 || i == c.NRows-1 {
			if r := s.Exec(&bt.Op{K: "MutateRows", Table: tbl, Entries: entries}); !r.OK() {
				return vt.Failf("C18", "setup failed: code %d %s %s", r.Code, r.Msg, r.Panic)
			}
			entries = nil
		}
	}
	if c.Reopen {
		s.Close()
		if s, err = bt.NewSrv(c.Engine, dir); err != nil {
			return vt.Failf("C18", "reopen: %v", err)
		}
		s.SetClock(5000)
	}
	var rs *bt.RowSet
	lo, hi := bt.BS(""), bt.BS("\xff")
	var holeLo, holeHi bt.BS
	if c.To > 0 {
		lo, hi = c18Key(c.From), c18Key(c.To)
		rs = &bt.RowSet{Ranges: []bt.Range{{S: bt.Bound{K: 2, V: lo}, E: bt.Bound{K: 1, V: hi}}}}
		if c.Hole > 0 {
			mid := (c.From + c.To) / 2
			holeLo, holeHi = c18Key(mid), c18Key(mid+c.Hole)
			rs = &bt.RowSet{Ranges: []bt.Range{{S: bt.Bound{K: 2, V: lo}, E: bt.Bound{K: 1, V: holeLo}}, {S: bt.Bound{K: 2, V: holeHi}, E: bt.Bound{K: 1, V: hi}}}}
		}
	}
	inSet := func(k bt.BS) bool { return k >= lo && k < hi && !(holeLo != "" && k >= holeLo && k < holeHi) }
	var writeErr atomic.Value
	gapsUsed, acked := 0, 0
	touchedAhead, runAhead := false, false
	refused := 0
	doWrite := func(op *bt.Op, mustFail bool) {
		done := make(chan *bt.Result, 1)
		fin := make(chan struct{})
		go func() { done <- s.Exec(op); close(fin) }()
		// s.Exec detects a request that is blocked for good itself (HANG); this only bounds a machine too slow to judge
		vt.Await(fin, 120*time.Second, nil, "write issued while the scan is parked")
		{
			r := <-done
			if strings.HasPrefix(r.Panic, "HANG") {
				writeErr.Store(fmt.Sprintf("a %s issued while the scan was streaming a batch was never acknowledged: the scan does not give up the table lock (or the table is wedged): %s", op.K, r.Panic))
				return
			}
			if mustFail {
				if r.Panic != "" || r.Code == 0 {
					writeErr.Store(fmt.Sprintf("an invalid %s issued during the scan was not refused: code %d %s", op.K, r.Code, r.Panic))
				}
				refused++
				return // refused: the row keeps its versions
			}
			if !r.OK() {
				writeErr.Store(fmt.Sprintf("write %s failed during the scan: code %d %s %s", op.K, r.Code, r.Msg, r.Panic))
				return
			}
			m.apply(op)
			acked++
		}
	}
	var stop int32
	var seq sync.Mutex
	var wg sync.WaitGroup
	var lastSent string
	var inGap int32 // the scan goroutine is inside the harness's Send hook, not inside the emulator
	onSend := func(n int) error {
		atomic.StoreInt32(&inGap, 1)
		defer atomic.StoreInt32(&inGap, 0)
		if c.Free {
			time.Sleep(200 * time.Microsecond)
			return nil
		}
		if n-1 < len(c.Gaps) && writeErr.Load() == nil {
			if len(c.Gaps[n-1]) > 0 {
				gapsUsed++
			}
			for _, w := range c.Gaps[n-1] {
				op := c18Op(w, n)
				for _, e := range op.Entries {
					if string(e.Key) > lastSent && inSet(e.Key) {
						touchedAhead = true
						if w.K == "delrun" {
							runAhead = true
						}
					}
				}
				if string(op.Key) > lastSent && inSet(op.Key) {
					touchedAhead = true
				}
				doWrite(op, m.mustFail(op))
			}
		}
		return nil
	}
	if c.Free {
		// writers run freely while the scan streams with a slow Send
		for w := 0; w < 4; w++ {
			w := w
			wg.Add(1)
			go func() {
				defer wg.Done()
				for g := 0; atomic.LoadInt32(&stop) == 0 && g < 400; g++ {
					for i, wr := range c.Gaps[(g+w)%len(c.Gaps)] {
						if i%4 != w {
							continue
						}
						op := c18Op(wr, g*10+w)
						seq.Lock()            // version order == acknowledgement order
						bad := m.mustFail(op) // under seq: the model is the acknowledged state
						r := s.Exec(op)
						if r.OK() && !bad {
							m.apply(op)
						}
						seq.Unlock()
						if bad {
							if r.Panic != "" || r.Code == 0 {
								writeErr.Store(fmt.Sprintf("an invalid %s was not refused: code %d %s", op.K, r.Code, r.Panic))
								return
							}
							continue
						}
						if !r.OK() {
							writeErr.Store(fmt.Sprintf("write failed: code %d %s %s", r.Code, r.Msg, r.Panic))
							return
						}
					}
				}
			}()
		}
	}
	scanOp := &bt.Op{K: "ReadRows", Table: tbl, Rows: rs}
	scanDone := make(chan *bt.Result, 1)
	scanFin := make(chan struct{})
	var scanG vt.GoidSet
	go func() {
		scanG.Add()
		st := &scanTracker{onSend: onSend, last: &lastSent}
		scanDone <- s.ExecCtx(nil2ctx(), scanOp, st.send)
		close(scanFin)
	}()
	// the scan runs on that goroutine's own stack: blocked there (outside the Send hook) in every sample = wedged
	scanIDs := func() []int64 {
		if atomic.LoadInt32(&inGap) == 1 {
			return nil
		}
		return scanG.IDs()
	}
	if mis := vt.Await(scanFin, 180*time.Second, scanIDs, "scan"); mis != "" {
		atomic.StoreInt32(&stop, 1)
		return vt.Failf("C18", "the scan did not finish (wedged against concurrent writers): %s", mis)
	}
	got := <-scanDone
	atomic.StoreInt32(&stop, 1)
	wg.Wait()
	if e := writeErr.Load(); e != nil {
		return vt.Failf("C18", "%s", e.(string))
	}
	if got.Panic != "" {
		return vt.Failf("C18", "scan panicked: %s", got.Panic)
	}
	if got.Code != 0 {
		return vt.Failf("C18", "scan ended with code %d (%s), want OK", got.Code, got.Msg)
	}
	if got.StreamErr != "" {
		return vt.Failf("C18", "malformed stream: %s", got.StreamErr)
	}
	seen := map[string]bool{}
	for i, r := range got.Rows {
		if i > 0 && !(got.Rows[i-1].Key < r.Key) {
			return vt.Failf("C18", "keys not strictly ascending: %q then %q", got.Rows[i-1].Key, r.Key)
		}
		if !inSet(r.Key) {
			return vt.Failf("C18", "row %q is outside the requested row set", r.Key)
		}
		seen[string(r.Key)] = true
		if sh := bt.CheckShape(r, true); sh != "" {
			return vt.Failf("C18", "%s", sh)
		}
		vs := m.versions[string(r.Key)]
		ok := false
		for _, v := range vs {
			if v != nil && bt.SameCells(r.Cells, v.Cells()) == "" {
				ok = true
				break
			}
		}
		if !ok {
			var alts []string
			for _, v := range vs {
				if v == nil {
					alts = append(alts, "<absent>")
				} else {
					alts = append(alts, fmt.Sprint(v.Cells()))
				}
			}
			return vt.Failf("C18", "row %q as returned by the scan %v equals none of the %d states the row had during the scan: %v", r.Key, r.Cells, len(vs), alts)
		}
	}
	// rows that existed with cells during the whole scan must be returned
	for k, vs := range m.versions {
		if !inSet(bt.BS(k)) || seen[k] {
			continue
		}
		always := true
		for _, v := range vs {
			if v == nil {
				always = false
			}
		}
		if always {
			return vt.Failf("C18", "row %q existed during the whole scan (%d versions) but was not returned", k, len(vs))
		}
	}
	labels := []string{"engine=" + c.Engine, fmt.Sprintf("messages>=3:%v", got.Msgs >= 3), fmt.Sprintf("wide=%v", c.Wide)}
	if c.Big || c.Reopen {
		labels = append(labels, "data-in-table-files")
	}
	if touchedAhead {
		labels = append(labels, "write-to-row-not-yet-streamed")
	}
	if runAhead {
		labels = append(labels, "run-of-rows-deleted-ahead-of-the-scan")
	}
	if refused > 0 {
		labels = append(labels, "refused-write-during-scan")
	}
	nontrivial := gapsUsed >= 2 && acked >= 2 && touchedAhead
	if c.Free {
		nontrivial = got.Msgs >= 2
	}
	ev.Case(c, nontrivial, labels...)
	return nil
}

type scanTracker struct {
	onSend func(n int) error
	last   *string
}

func (s *scanTracker) send(n int) error { return s.onSend(n) }

func TestC18(t *testing.T) {
	vt.Prop[C18Case]{ID: "C18", Test: "TestC18",
		Rule: "owned interleaving: a full or ranged scan over 1100-3000 single-cell rows or 250-600 five-cell rows (2-6 response messages; a fifth of the tables with ~4 KB values so that they outgrow the write buffer, a third of the disk tables closed and reopened first: the scan then reads leveldb table files) on the leveldb engines is parked inside every Send (where it has released the table lock) while a drawn batch of writes runs to acknowledgement: multi-cell SetCell, DeleteFromRow of one row or of a run of 2-400 adjacent rows, ReadModifyWrite append, new keys, two-row MutateRows, and requests that must be refused part-way (increment of a text cell after an append, unknown family after a valid SetCell) on rows before / at / after the scan position; oracle: status OK, strictly ascending keys inside the range, every returned row equals ONE state that row had during the scan (whole row compared), rows present throughout are returned, every write is acknowledged while the scan is parked; non-trivial = >=2 gaps with acknowledged writes touching a row not yet streamed",
		Gen:  genC18(false), Run: runC18}.Main(t)
}

func TestC18Race(t *testing.T) {
	vt.Prop[C18Case]{ID: "C18", Test: "TestC18Race",
		Rule: "free-running variant under the Go race detector: 4 writer goroutines replay the drawn writes continuously while the scan streams with a slow Send; same per-row state-membership oracle (version order = acknowledgement order); non-trivial = multi-message scan",
		Gen:  genC18(true), Run: runC18}.Main(t)
}
