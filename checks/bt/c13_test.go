package btchecks

import (
	"math"
	"testing"

	"pgregory.net/rapid"

	"verif/internal/bt"
	"verif/internal/vt"
)

// C13 — ReadModifyWriteRow increments and appends against the latest cell.

type C13Case struct {
	Engine string   `json:"engine"`
	Fams   []string `json:"fams"`
	Steps  []bt.Op  `json:"steps"` // MutateRow (prior state) and RMW
}

var c13Vals = []bt.BS{"", "x", "1234567", "\x00\x00\x00\x00\x00\x00\x00\x05", "123456789",
	"\x7f\xff\xff\xff\xff\xff\xff\xff", "\x80\x00\x00\x00\x00\x00\x00\x00", "\xff\xff\xff\xff\xff\xff\xff\xff", "\x00\x00\x00\x00\x00\x00\x00\x00"}

func genC13() *rapid.Generator[C13Case] {
	return rapid.Custom(func(t *rapid.T) C13Case {
		c := C13Case{Engine: rapid.SampledFrom(bt.Engines).Draw(t, "engine")}
		c.Fams = bt.AllFams[:rapid.IntRange(1, 2).Draw(t, "nfams")]
		keys := []bt.BS{"r", "r\x00"}
		quals := []bt.BS{"q", "", "q\x00"}
		clocks := []int64{0, 999, 1000, 1234567, 2000, 3000, 5000}
		rule := rapid.Custom(func(t *rapid.T) bt.RMWRule {
			r := bt.RMWRule{Fam: bt.GenFam(c.Fams, 6).Draw(t, "fam"), Qual: rapid.SampledFrom(quals).Draw(t, "q")}
			if rapid.Bool().Draw(t, "inc") {
				r.Inc = true
				r.Amount = rapid.SampledFrom([]int64{0, 1, -1, 5, math.MaxInt64, math.MinInt64}).Draw(t, "amt")
			} else {
				r.Append = rapid.SampledFrom([]bt.BS{"", "z", "\x00\xff", "12345678"}).Draw(t, "app")
			}
			return r
		})
		step := rapid.Custom(func(t *rapid.T) bt.Op {
			op := bt.Op{Table: tbl, Key: rapid.SampledFrom(keys).Draw(t, "key"), Clock: bt.I64(rapid.SampledFrom(clocks).Draw(t, "clock"))}
			if rapid.IntRange(0, 9).Draw(t, "kind") < 4 {
				op.K = "MutateRow"
				op.Muts = rapid.SliceOfN(rapid.Custom(func(t *rapid.T) bt.Mut {
					if rapid.IntRange(0, 9).Draw(t, "del") == 0 {
						return bt.Mut{K: "delcol", Fam: rapid.SampledFrom(c.Fams).Draw(t, "f"), Qual: rapid.SampledFrom(quals).Draw(t, "q")}
					}
					return bt.Mut{K: "set", Fam: rapid.SampledFrom(c.Fams).Draw(t, "f"), Qual: rapid.SampledFrom(quals).Draw(t, "q"),
						TS:  rapid.SampledFrom([]int64{0, 1000, 2000, 3000, 4000, 9000, bt.MaxTS}).Draw(t, "ts"),
						Val: rapid.SampledFrom(c13Vals).Draw(t, "v")}
				}), 1, 3).Draw(t, "muts")
			} else {
				op.K = "RMW"
				op.Rules = rapid.SliceOfN(rule, 0, 6).Draw(t, "rules")
			}
			return op
		})
		c.Steps = rapid.SliceOfN(step, 1, 12).Draw(t, "steps")
		return c
	})
}

func runC13(c C13Case, ev *vt.Ev) *vt.Failure {
	s, err := bt.NewSrv(c.Engine, "")
	if err != nil {
		return vt.Failf("C13", "server start: %v", err)
	}
	defer s.Close()
	m := bt.NewModel()
	if f := mustCreate(s, m, tbl, c.Fams); f != nil {
		f.Property = "C13"
		return f
	}
	mt := m.Tables[(&bt.Op{Table: tbl}).FullName()]
	nontrivial := false
	labels := map[string]bool{"engine=" + c.Engine: true}
	for i := range c.Steps {
		op := &c.Steps[i]
		if op.K == "RMW" {
			classifyC13(op, mt, labels, &nontrivial)
		}
		res := s.Exec(op)
		if mis := m.Step(op, res); mis != "" {
			return fail("C13", i, op, mis)
		}
		for _, k := range []bt.BS{"r", "r\x00"} {
			if mis := verifyRow(s, mt, tbl, k); mis != "" {
				return fail("C13", i, op, mis)
			}
		}
	}
	if mis := verifyScan(s, mt, "", tbl); mis != "" {
		return fail("C13", len(c.Steps)-1, nil, mis)
	}
	var ls []string
	for l := range labels {
		ls = append(ls, l)
	}
	ev.Case(c, nontrivial, ls...)
	return nil
}

func classifyC13(op *bt.Op, mt *bt.MTable, labels map[string]bool, nontrivial *bool) {
	clock := *op.Clock
	row := mt.Rows[string(op.Key)]
	_, _, v := bt.ApplyRMW(mt.Fams, row, op.Rules, clock)
	if v == bt.VErr {
		labels["failing-rule-list"] = true
		if len(op.Rules) > 1 {
			if _, _, v0 := bt.ApplyRMW(mt.Fams, row, op.Rules[:1], clock); v0 != bt.VErr {
				labels["failing-at-position>0"] = true
				*nontrivial = true
			}
		}
		return
	}
	seen := map[string]bool{}
	repeat := false
	for _, r := range op.Rules {
		k := r.Fam + "\x00" + string(r.Qual)
		if seen[k] {
			repeat = true
		}
		seen[k] = true
		if cells, ok := row[r.Fam][string(r.Qual)]; ok {
			for ts, val := range cells {
				if ts > bt.ServerTime(clock) {
					labels["prior-cell-in-future"] = true
					*nontrivial = true
				}
				if r.Inc && len(val) == 8 {
					labels["increment-existing"] = true
				}
			}
			if len(cells) > 1 {
				labels["multi-version-column"] = true
			}
		}
		if r.Inc && (r.Amount == math.MaxInt64 || r.Amount == math.MinInt64) {
			labels["extreme-amount"] = true
		}
	}
	if repeat && len(op.Rules) >= 2 {
		labels["repeated-column"] = true
		*nontrivial = true
	}
}

func TestC13(t *testing.T) {
	vt.Prop[C13Case]{ID: "C13", Test: "TestC13",
		Rule: "rapid-generated histories of MutateRow (prior states: future cells, non-8-byte / empty / extreme values) and ReadModifyWriteRow rule lists (repeated columns, mixed increment/append, extreme amounts, unknown family at position k) under a drawn clock on 3 engines; response and read-back compared with an arithmetic model after every step; non-trivial = a rule list with a repeated column, or a prior newest cell in the future of the clock, or a list failing at position k>0",
		Gen:  genC13(), Run: runC13}.Main(t)
}
