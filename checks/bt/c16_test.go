package btchecks

import (
	"fmt"
	"strings"
	"testing"
	"time"

	"github.com/fullstorydev/emulators/bigtable/bttest"
	"pgregory.net/rapid"

	"verif/internal/bt"
	"verif/internal/sched"
	"verif/internal/vt"
)

// C16 — garbage collection removes exactly what the GC rules condemn.

type C16Case struct {
	Engine string      `json:"engine"`
	Fams   []bt.FamDef `json:"fams"`
	Now    int64       `json:"now"` // clock of the pass (micros)
	Rows   []C05Row    `json:"rows"`
	Mode   string      `json:"mode"` // force | fresh (non-forced right after activity) | aged (non-forced, activity aged 6 min) | aged-read / aged-write (aged, then one read / one write, then non-forced)
	// Via: if set, the table is created with these rules and then brought to Fams by ModifyColumnFamilies updates
	// (a rule replaced, removed or added later must be the one the pass applies)
	Via []bt.FamDef `json:"via,omitempty"`
}

const c16Now = int64(10_000_000_000) // 10 000 s

func genGCRule(depth int) *rapid.Generator[*bt.GC] {
	return rapid.Custom(func(t *rapid.T) *bt.GC {
		k := rapid.SampledFrom([]string{"none", "maxv", "maxv", "maxage", "maxage", "union", "inter", "empty"}).Draw(t, "gck")
		if depth <= 0 && (k == "union" || k == "inter") {
			k = "maxv"
		}
		switch k {
		case "none":
			return nil
		case "maxv":
			return &bt.GC{K: "maxv", N: rapid.SampledFrom([]int32{1, 2, 3, 5}).Draw(t, "n")}
		case "maxage":
			return &bt.GC{K: "maxage", Sec: rapid.SampledFrom([]int64{0, 1, 3600}).Draw(t, "sec"), Nanos: rapid.SampledFrom([]int32{0, 1000, 500000000, 999}).Draw(t, "nanos")}
		case "union":
			g := &bt.GC{K: "union"}
			for i, n := 0, rapid.IntRange(1, 3).Draw(t, "nsub"); i < n; i++ {
				if s := genGCRule(depth-1).Filter(func(x *bt.GC) bool { return x != nil && x.K != "inter" && x.K != "empty" }).Draw(t, "sub"); s != nil {
					g.Subs = append(g.Subs, *s)
				}
			}
			return g
		case "inter":
			return &bt.GC{K: "inter", Subs: []bt.GC{{K: "maxv", N: 1}, {K: "maxage", Sec: 1}}}
		}
		return &bt.GC{K: "empty"}
	})
}

// cutoffs of every max-age leaf, so that cells can be placed exactly at the boundary
func gcCutoffs(g *bt.GC, now int64, into *[]int64) {
	if g == nil {
		return
	}
	if g.K == "maxage" {
		*into = append(*into, now-g.Sec*1000000-int64(g.Nanos)/1000)
	}
	for i := range g.Subs {
		gcCutoffs(&g.Subs[i], now, into)
	}
}

func genC16() *rapid.Generator[C16Case] {
	return rapid.Custom(func(t *rapid.T) C16Case {
		c := C16Case{Engine: rapid.SampledFrom(bt.Engines).Draw(t, "engine"), Now: c16Now + rapid.SampledFrom([]int64{0, 999, 1000, 500}).Draw(t, "nowoff"),
			Mode: rapid.SampledFrom([]string{"force", "force", "force", "force", "fresh", "aged", "aged-read", "aged-write"}).Draw(t, "mode")}
		var cuts []int64
		for _, f := range []string{"f", "g", "h"} {
			r := genGCRule(2).Draw(t, "rule-"+f)
			c.Fams = append(c.Fams, bt.FamDef{Name: f, GC: r})
			gcCutoffs(r, c.Now, &cuts)
		}
		if rapid.IntRange(0, 3).Draw(t, "via") == 0 {
			for _, f := range []string{"f", "g", "h"} {
				c.Via = append(c.Via, bt.FamDef{Name: f, GC: genGCRule(1).Draw(t, "via-"+f)})
			}
		}
		tsPool := []int64{1000, c.Now - 1000, c.Now - c.Now%1000, c.Now - c.Now%1000 + 1000, c.Now - 3600*1000000, c.Now - 3600*1000000 - 1000, c.Now - 1000000, c.Now - 2000000}
		for _, cu := range cuts {
			b := cu - cu%1000
			tsPool = append(tsPool, b-1000, b, b+1000)
		}
		var valid []int64
		for _, ts := range tsPool {
			if bt.ValidTS(ts) {
				valid = append(valid, ts)
			}
		}
		nrows := rapid.IntRange(1, 30).Draw(t, "nrows")
		for i := 0; i < nrows; i++ {
			r := C05Row{Key: bt.BS(fmt.Sprintf("row%03d", i))}
			seen := map[string]bool{}
			for j, n := 0, rapid.IntRange(1, 8).Draw(t, "ncells"); j < n; j++ {
				cl := bt.Cell{Fam: rapid.SampledFrom([]string{"f", "g", "h"}).Draw(t, "fam"), Qual: rapid.SampledFrom([]bt.BS{"q", "q2"}).Draw(t, "q"),
					TS: rapid.SampledFrom(valid).Draw(t, "ts"), Val: bt.BS(fmt.Sprintf("v%d", j))}
				id := fmt.Sprintf("%s|%s|%d", cl.Fam, cl.Qual, cl.TS)
				if !seen[id] {
					seen[id] = true
					r.Cells = append(r.Cells, cl)
				}
			}
			c.Rows = append(c.Rows, r)
		}
		return c
	})
}

func c16Load(s *bt.Srv, m *bt.Model, table string, fams []bt.FamDef, rows []C05Row, via ...bt.FamDef) string {
	op := &bt.Op{K: "CreateTable", Table: table, Fams: fams}
	if len(via) == len(fams) {
		op.Fams = via
	}
	if mis := m.Step(op, s.Exec(op)); mis != "" {
		return mis
	}
	if len(via) == len(fams) {
		up := &bt.Op{K: "ModifyCF", Table: table}
		for _, f := range fams {
			up.Mods = append(up.Mods, bt.Mod{K: "update", ID: f.Name, GC: f.GC})
		}
		if mis := m.Step(up, s.Exec(up)); mis != "" {
			return mis
		}
	}
	for _, r := range rows {
		var muts []bt.Mut
		for _, c := range r.Cells {
			muts = append(muts, bt.Mut{K: "set", Fam: c.Fam, Qual: c.Qual, TS: c.TS, Val: c.Val})
		}
		op := &bt.Op{K: "MutateRow", Table: table, Key: r.Key, Muts: muts}
		if mis := m.Step(op, s.Exec(op)); mis != "" {
			return mis
		}
	}
	return ""
}

func runC16(c C16Case, ev *vt.Ev) *vt.Failure {
	s, err := bt.NewSrv(c.Engine, "")
	if err != nil {
		return vt.Failf("C16", "server start: %v", err)
	}
	defer s.Close()
	m := bt.NewModel()
	s.SetClock(c.Now)
	m.Clock = c.Now
	if mis := c16Load(s, m, "t", c.Fams, c.Rows, c.Via...); mis != "" {
		return vt.Failf("C16", "setup: %s", mis)
	}
	// a second table without rules but identical content must never change
	var plain []bt.FamDef
	for _, f := range c.Fams {
		plain = append(plain, bt.FamDef{Name: f.Name})
	}
	if mis := c16Load(s, m, "norules", plain, c.Rows); mis != "" {
		return vt.Failf("C16", "setup: %s", mis)
	}
	mt := m.Tables[(&bt.Op{Table: "t"}).FullName()]
	before := mt.NumCells()
	collect := true
	switch c.Mode {
	case "force":
		s.Exec(&bt.Op{K: "GC", Force: true})
	case "fresh":
		s.Exec(&bt.Op{K: "GC"})
		collect = false
	case "aged":
		s.Exec(&bt.Op{K: "GC", AgeMin: 6})
	case "aged-read", "aged-write":
		// all activity aged by 6 minutes, then one client request of one kind: the table is in use again and a
		// non-forced pass must leave it alone
		bttest.VerifAgeActivity(s.S, 6*time.Minute)
		for _, tb := range []string{"t", "norules"} {
			op := &bt.Op{K: "ReadRows", Table: tb, Limit: 1}
			if c.Mode == "aged-write" && len(c.Fams) > 0 {
				op = &bt.Op{K: "MutateRow", Table: tb, Key: "zz-activity", Muts: []bt.Mut{{K: "set", Fam: c.Fams[0].Name, Qual: "act", TS: 1000, Val: "x"}}}
			}
			if mis := m.Step(op, s.Exec(op)); mis != "" {
				return vt.Failf("C16", "request on the aged table %s: %s", tb, mis)
			}
		}
		s.Exec(&bt.Op{K: "GC"})
		collect = false
	case "loop":
		// the server's own background loop (a pass every 15-60 s over tables without recent activity), not the
		// guarded entry point: the tables are made to look idle, then the harness just waits for the next pass
		bttest.VerifAgeActivity(s.S, 7*time.Minute)
		time.Sleep(61500 * time.Millisecond)
	}
	if collect {
		mt.GC(c.Now)
	}
	for name, t := range m.Tables {
		i := strings.Index(name, "/tables/")
		if mis := verifyScan(s, t, name[:i], name[i+8:]); mis != "" {
			return vt.Failf("C16", "after a %s pass at clock %d on %s, table %s: %s", c.Mode, c.Now, c.Engine, name[i+8:], mis)
		}
		// SampleRowKeys is a second observer of the key set (rows left without cells must be gone)
		op := &bt.Op{K: "Sample", Parent: name[:i], Table: name[i+8:]}
		if mis := m.Step(op, s.Exec(op)); mis != "" {
			return vt.Failf("C16", "after a %s pass, table %s: %s", c.Mode, name[i+8:], mis)
		}
	}
	after := mt.NumCells()
	partial := false
	if collect {
		// did the pass remove some but not all cells of a column?
		for _, r := range c.Rows {
			cnt := map[string]int{}
			for _, cl := range r.Cells {
				cnt[cl.Fam+"|"+string(cl.Qual)]++
			}
			left := map[string]int{}
			for _, cl := range mt.Rows[string(r.Key)].Cells() {
				left[cl.Fam+"|"+string(cl.Qual)]++
			}
			for k, n := range cnt {
				if left[k] > 0 && left[k] < n {
					partial = true
				}
			}
		}
	}
	labels := []string{"engine=" + c.Engine, "mode=" + c.Mode}
	if after < before {
		labels = append(labels, "cells-collected")
	}
	if len(mt.Rows) < len(c.Rows) {
		labels = append(labels, "row-left-empty-and-removed")
	}
	for _, f := range c.Fams {
		if f.GC != nil {
			labels = append(labels, "rule="+f.GC.K)
		}
	}
	ev.Case(c, partial || (c.Mode != "force" && before > 0), labels...)
	return nil
}

func TestC16Loop(t *testing.T) {
	g := rapid.Custom(func(t *rapid.T) C16Case {
		c := genC16().Draw(t, "case")
		c.Mode = "loop"
		return c
	})
	vt.Prop[C16Case]{ID: "C16", Test: "TestC16Loop",
		Rule: "the same generated tables, but the pass is the one the server's own background loop makes: the server runs on an injected clock 56 years behind the wall clock, the tables' activity stamps are aged by 7 minutes through a hook, the harness sleeps 61.5 s (the loop runs every 15-60 s) and then compares both tables with the GC evaluator at the SERVER's clock; one case per shard in the quick tier; non-trivial as in TestC16",
		Gen:  g, Run: runC16}.Main(t)
}

func TestC16(t *testing.T) {
	vt.Prop[C16Case]{ID: "C16", Test: "TestC16",
		Rule: "rapid-generated GC rule trees per family (none, max-versions, max-age with sub-second parts, nested unions, unsupported intersection / empty rule), 1-30 rows with cells placed at cut-off-1ms / cut-off / cut-off+1ms of every max-age leaf, drawn pass clock, 3 engines, plus an identical table without rules; a forced pass, a non-forced pass right after activity (must collect nothing) or after ageing the activity stamps by 6 min (must collect), or after ageing them and then serving one read or one write (the table is in use again: must collect nothing); oracle = GC evaluator, full scan + SampleRowKeys of both tables; non-trivial = the pass removed some but not all cells of a column, or the quiescence rule was exercised",
		Gen:  genC16(), Run: runC16}.Main(t)
}

// ---------------------------------------------------------------- (c) hand-over with writers

type C16Write struct {
	Row int    `json:"row"`
	K   string `json:"k"` // set | delrow | rmw | setold
}

type C16Conc struct {
	Engine  string       `json:"engine"`
	NRows   int          `json:"nrows"`
	Condemn int          `json:"condemn"` // every Condemn-th row holds cells the rule condemns
	Writers [][]C16Write `json:"writers"`
	Choices []int        `json:"choices"`
}

func genC16Conc() *rapid.Generator[C16Conc] {
	return rapid.Custom(func(t *rapid.T) C16Conc {
		c := C16Conc{Engine: rapid.SampledFrom([]string{"leveldb-mem", "leveldb-disk", "btree"}).Draw(t, "engine"), NRows: rapid.IntRange(150, 450).Draw(t, "nrows"),
			Condemn: rapid.SampledFrom([]int{1, 2, 3, 7}).Draw(t, "condemn")}
		for w, nw := 0, rapid.IntRange(1, 3).Draw(t, "writers"); w < nw; w++ {
			c.Writers = append(c.Writers, rapid.SliceOfN(rapid.Custom(func(t *rapid.T) C16Write {
				return C16Write{Row: rapid.IntRange(0, c.NRows+5).Draw(t, "row"), K: rapid.SampledFrom([]string{"set", "set", "delrow", "rmw", "setold"}).Draw(t, "k")}
			}), 1, 4).Draw(t, fmt.Sprintf("w%d", w)))
		}
		c.Choices = rapid.SliceOfN(rapid.IntRange(0, 3), 0, 40).Draw(t, "choices")
		return c
	})
}

func c16Key(i int) bt.BS { return bt.BS(fmt.Sprintf("row%04d", i)) }

func runC16Conc(c C16Conc, ev *vt.Ev) *vt.Failure {
	s, err := bt.NewSrv(c.Engine, "")
	if err != nil {
		return vt.Failf("C16", "server start: %v", err)
	}
	defer s.Close()
	const now = c16Now
	s.SetClock(now)
	const recent = now - 1000000 // retained by the max-age rule
	fams := map[string]*bt.GC{"f": {K: "union", Subs: []bt.GC{{K: "maxv", N: 2}, {K: "maxage", Sec: 3600}}}, "g": nil}
	if r := s.Exec(&bt.Op{K: "CreateTable", Table: "t", Fams: []bt.FamDef{{Name: "f", GC: fams["f"]}, {Name: "g"}}}); !r.OK() {
		return vt.Failf("C16", "setup: %+v", r)
	}
	init := map[string]bt.MRow{}
	var entries []bt.Entry
	for i := 0; i < c.NRows; i++ {
		var row bt.MRow
		var muts []bt.Mut
		if i%5 == 3 {
			// every cell of this row is condemned: the pass leaves the row without cells
			row = bt.MRow{"f": {"q": {1000: "old"}}}
			muts = []bt.Mut{{K: "set", Fam: "f", Qual: "q", TS: 1000, Val: "old"}}
		} else {
			row = bt.MRow{"f": {"q": {recent: "new"}}, "g": {"keep": {1000: "k"}}}
			muts = []bt.Mut{{K: "set", Fam: "f", Qual: "q", TS: recent, Val: "new"}, {K: "set", Fam: "g", Qual: "keep", TS: 1000, Val: "k"}}
			if i%c.Condemn == 0 {
				row["f"]["q"][1000] = "old"
				muts = append(muts, bt.Mut{K: "set", Fam: "f", Qual: "q", TS: 1000, Val: "old"})
			}
		}
		init[string(c16Key(i))] = row
		entries = append(entries, bt.Entry{Key: c16Key(i), Muts: muts})
	}
	if r := s.Exec(&bt.Op{K: "MutateRows", Table: "t", Entries: entries}); !r.OK() {
		return vt.Failf("C16", "setup: %+v", r)
	}
	s.Inline = true // the scheduler identifies workers by goroutine
	sc := sched.New()
	sc.DetectBlocking = true
	bttest.VerifYield = func(p string) {
		if p == "gc.unlocked" {
			sc.Yield(p, nil)
		}
	}
	defer func() { bttest.VerifYield = nil }()
	type ack struct {
		key string
		op  *bt.Op
		win int // GC windows seen when acknowledged
	}
	var acks []ack
	windows := 0
	gcDone := false
	var violation string
	sc.Go("gc", func(*sched.Worker) {
		bttest.VerifGC(s.S, true)
		gcDone = true
	})
	for w := range c.Writers {
		w := w
		sc.Go(fmt.Sprintf("w%d", w), func(*sched.Worker) {
			for i, wr := range c.Writers[w] {
				sc.Yield("writer.next", nil)
				op := &bt.Op{Table: "t", Key: c16Key(wr.Row)}
				switch wr.K {
				case "set":
					op.K, op.Muts = "MutateRow", []bt.Mut{{K: "set", Fam: "g", Qual: bt.BS(fmt.Sprintf("w%d", w)), TS: 3000, Val: bt.BS(fmt.Sprintf("%d", i))}}
				case "setold": // a cell the rule condemns (older than the newest)
					op.K, op.Muts = "MutateRow", []bt.Mut{{K: "set", Fam: "f", Qual: "q", TS: 500000 + int64(w)*1000, Val: "older"}}
				case "delrow":
					op.K, op.Muts = "MutateRow", []bt.Mut{{K: "delrow"}}
				case "rmw":
					op.K, op.Rules = "RMW", []bt.RMWRule{{Fam: "g", Qual: "cnt", Inc: true, Amount: 1}}
				}
				res := s.Exec(op)
				if !res.OK() {
					violation = fmt.Sprintf("write %s on %q failed: code %d %s %s", wr.K, op.Key, res.Code, res.Msg, res.Panic)
					return
				}
				acks = append(acks, ack{string(op.Key), op, windows})
			}
		})
	}
	sc.OnStep = func(w *sched.Worker) string {
		if w.Panic != nil {
			return fmt.Sprintf("panic in %s: %v\n%s", w.Name, w.Panic, w.PanicStk)
		}
		if w.Name == "gc" && w.Point() == "gc.unlocked" {
			windows++
		}
		return violation
	}
	msg, rerr := sc.Run(&sched.ListChooser{List: c.Choices})
	if msg != "" {
		return vt.Failf("C16", "%s", msg)
	}
	if rerr != nil {
		if de, ok := rerr.(*sched.DeadlockError); ok {
			return vt.Failf("C16", "pass and clients wedged: %s", de.Msg)
		}
		panic("HARNESS:" + rerr.Error())
	}
	if !gcDone {
		return vt.Failf("C16", "the pass did not terminate")
	}
	// oracle: per row, the final content equals the writes applied in ack order with the pass applied once at some point
	byKey := map[string][]*bt.Op{}
	inWindow := false
	for _, a := range acks {
		byKey[a.key] = append(byKey[a.key], a.op)
		if a.win > 0 && a.win < windows {
			inWindow = true
		}
	}
	scan := s.ReadAll("", "t")
	if !scan.OK() || scan.StreamErr != "" {
		return vt.Failf("C16", "final scan failed: %+v", scan)
	}
	got := map[string]bt.MRow{}
	for _, r := range scan.Rows {
		row := bt.MRow{}
		for _, cl := range r.Cells {
			if row[cl.Fam] == nil {
				row[cl.Fam] = map[string]map[int64]string{}
			}
			if row[cl.Fam][string(cl.Qual)] == nil {
				row[cl.Fam][string(cl.Qual)] = map[int64]string{}
			}
			row[cl.Fam][string(cl.Qual)][cl.TS] = string(cl.Val)
		}
		got[string(r.Key)] = row
	}
	keys := map[string]bool{}
	for k := range init {
		keys[k] = true
	}
	for k := range byKey {
		keys[k] = true
	}
	for k := range got {
		keys[k] = true
	}
	applyOp := func(row bt.MRow, op *bt.Op) bt.MRow {
		if op.K == "RMW" {
			nr, _, _ := bt.ApplyRMW(fams, row, op.Rules, now)
			return nr
		}
		nr, _ := bt.ApplyMuts(fams, row, op.Muts, now)
		return nr
	}
	interesting := false
	for k := range keys {
		ops := byKey[k]
		start, existed := init[k]
		if !existed {
			start = bt.MRow{}
		}
		ok := false
		var alts []string
		for cut := 0; cut <= len(ops); cut++ {
			row := start.Clone()
			for _, op := range ops[:cut] {
				row = applyOp(row, op)
			}
			row = bt.GCRow(fams, row, now)
			for _, op := range ops[cut:] {
				row = applyOp(row, op)
			}
			if bt.RowEqual(row, got[k]) {
				ok = true
				if cut > 0 && existed && !bt.RowEqual(start, bt.GCRow(fams, start, now)) {
					interesting = true
				}
			}
			alts = append(alts, fmt.Sprint(row.Cells()))
		}
		if !ok && !existed {
			// a row created during the pass may also have been missed by it entirely
			row := bt.MRow{}
			for _, op := range ops {
				row = applyOp(row, op)
			}
			ok = bt.RowEqual(row, got[k])
		}
		if !ok {
			return vt.Failf("C16", "row %q after a GC pass overlapping %d acknowledged writes (engine %s, %d hand-over windows): got %v, which is none of the states 'writes[:k] ; collect ; writes[k:]': %v",
				k, len(ops), c.Engine, windows, got[k].Cells(), alts)
		}
	}
	labels := []string{"engine=" + c.Engine, fmt.Sprintf("windows>=2:%v", windows >= 2)}
	if inWindow {
		labels = append(labels, "write-acknowledged-inside-a-hand-over-window")
	}
	ev.Case(c, inWindow && interesting, labels...)
	return nil
}

func TestC16Conc(t *testing.T) {
	vt.Prop[C16Conc]{ID: "C16", Test: "TestC16Conc",
		Rule: "owned schedule: a forced GC pass over 150-450 rows (all three engines; the btree engine iterates a snapshot since fix c0aecb3; the pass gives up the table lock every 100 rows, where it is parked at the guarded yield point gc.unlocked) against 1-3 client goroutines with 1-4 acknowledged writes each (retained SetCell, condemned SetCell, DeleteFromRow, ReadModifyWrite increment) on rows before / at / after the pass position or new rows; a rapid-drawn choice list decides in which hand-over window each write runs; every write must be acknowledged and the pass must end (bounded progress); oracle per row: final content = writes[:k]; collect; writes[k:] for some k (no acknowledged write lost or reverted, deleted rows stay deleted); non-trivial = a write acknowledged inside a window to a row that the pass changes",
		Gen:  genC16Conc(), Run: runC16Conc}.Main(t)
}
