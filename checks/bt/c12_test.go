package btchecks

import (
	"fmt"
	"testing"

	"pgregory.net/rapid"

	"verif/internal/bt"
	"verif/internal/vt"
)

// C12 — CheckAndMutateRow applies exactly the branch its predicate selects.

type C12Case struct {
	Engine string   `json:"engine"`
	Fams   []string `json:"fams"`
	Steps  []bt.Op  `json:"steps"` // MutateRow (history) and CheckAndMutate
}

// predicates that match the row structurally but leave no cell, or only some
var c12Special = []bt.Filter{
	{K: "rowlimit", N: 0},
	{K: "rowoffset", N: 9},
	{K: "rowoffset", N: 1},
	{K: "collimit", N: 0},
	{K: "chain", Subs: []bt.Filter{{K: "pass", Flag: true}, {K: "block", Flag: true}}},
	{K: "chain", Subs: []bt.Filter{{K: "strip", Flag: true}, {K: "rowoffset", N: 2}}},
	{K: "interleave", Subs: []bt.Filter{{K: "block", Flag: true}, {K: "rowoffset", N: 3}}},
	{K: "cond", Pred: &bt.Filter{K: "rowoffset", N: 1}, True: &bt.Filter{K: "block", Flag: true}, False: &bt.Filter{K: "pass", Flag: true}},
	{K: "cond", Pred: &bt.Filter{K: "pass", Flag: true}},
	{K: "strip", Flag: true},
	{K: "block", Flag: true},
	{K: "pass", Flag: true},
	{K: "value", Raw: "["},
	{K: "chain", Subs: []bt.Filter{{K: "family", Rx: &bt.Rx{K: "lit", Lit: "g"}}, {K: "rowlimit", N: -1}}},
}

func genC12() *rapid.Generator[C12Case] {
	return rapid.Custom(func(t *rapid.T) C12Case {
		c := C12Case{Engine: rapid.SampledFrom(bt.Engines).Draw(t, "engine")}
		c.Fams = bt.AllFams[:rapid.IntRange(1, 3).Draw(t, "nfams")]
		keys := []bt.BS{"r1", "r1\x00", "a"}
		quals := []bt.BS{"q1", "q2", ""}
		invalidPct := rapid.SampledFrom([]int{0, 5, 15}).Draw(t, "invalidPct")
		o := bt.FilterOpts{Fams: c.Fams, Keys: keys, Quals: quals, Vals: c05Vals, InvalidPct: invalidPct}
		step := rapid.Custom(func(t *rapid.T) bt.Op {
			op := bt.Op{Table: tbl, Key: rapid.SampledFrom(keys).Draw(t, "key"), Clock: bt.I64(rapid.SampledFrom([]int64{1000, 5000, 12345678}).Draw(t, "clock"))}
			kind := rapid.IntRange(0, 9).Draw(t, "kind")
			if kind == 9 {
				// a ReadModifyWriteRow without rules: accepted or rejected, but it must not create a row
				op.K = "RMW"
				return op
			}
			if kind < 4 {
				op.K = "MutateRow"
				op.Muts = bt.GenMuts(c.Fams, 1, 4, 0, quals...).Draw(t, "muts")
				return op
			}
			op.K = "CheckAndMutate"
			switch rapid.IntRange(0, 9).Draw(t, "predclass") {
			case 0:
				op.Pred = nil
			case 1, 2, 3:
				f := rapid.SampledFrom(c12Special).Draw(t, "special")
				op.Pred = &f
			default:
				f := bt.GenFilter(3, o).Draw(t, "pred")
				op.Pred = &f
			}
			op.TMuts = bt.GenMuts(c.Fams, 0, 3, invalidPct, quals...).Draw(t, "tmuts")
			op.FMuts = bt.GenMuts(c.Fams, 0, 3, invalidPct, quals...).Draw(t, "fmuts")
			return op
		})
		c.Steps = rapid.SliceOfN(step, 1, 14).Draw(t, "steps")
		return c
	})
}

func runC12(c C12Case, ev *vt.Ev) *vt.Failure {
	s, err := bt.NewSrv(c.Engine, "")
	if err != nil {
		return vt.Failf("C12", "server start: %v", err)
	}
	defer s.Close()
	m := bt.NewModel()
	if f := mustCreate(s, m, tbl, c.Fams); f != nil {
		f.Property = "C12"
		return f
	}
	mt := m.Tables[(&bt.Op{Table: tbl}).FullName()]
	labels := map[string]bool{"engine=" + c.Engine: true}
	nontrivial := false
	outcomes := map[bool]bool{}
	for i := range c.Steps {
		op := &c.Steps[i]
		if op.K != "CheckAndMutate" {
			res := s.Exec(op)
			if mis := m.Step(op, res); mis != "" {
				return fail("C12", i, op, mis)
			}
			if op.K == "RMW" {
				labels["rmw-without-rules"] = true
			}
			continue
		}
		m.Clock = *op.Clock
		before := s.ReadKey("", tbl, op.Key)
		if !before.OK() {
			return fail("C12", i, op, fmt.Sprintf("unfiltered read failed: %+v", before))
		}
		var cells []bt.Cell
		if len(before.Rows) == 1 {
			cells = before.Rows[0].Cells
		}
		row := mt.Rows[string(op.Key)]
		matched := len(cells) > 0
		mayReject, mustReject, unspec := false, false, false
		if op.Pred != nil {
			er := bt.EvalFilter(op.Pred, op.Key, cells, nil)
			unspec = er.Unspec
			matched = len(er.Cells) > 0
			mustReject = er.Status == bt.EvInvalid || bt.RootInvalid(op.Pred) // the root is evaluated even for a row without cells
			mayReject = er.Status == bt.EvInvalidLazy || er.ZeroCount || bt.StaticInvalid(op.Pred)
			// second observer: the emulator's own filtered read of the row
			rd := s.Exec(&bt.Op{K: "ReadRows", Table: tbl, Rows: &bt.RowSet{Keys: []bt.BS{op.Key}}, Filter: op.Pred})
			if rd.Panic != "" {
				return fail("C12", i, op, "filtered read panicked: "+rd.Panic)
			}
			if !unspec && !mustReject && rd.Code == 0 && (len(rd.Rows) > 0) != matched {
				return fail("C12", i, op, fmt.Sprintf("ReadRows with the predicate as filter returned %d rows but the evaluator says matched=%v", len(rd.Rows), matched))
			}
		}
		got := s.Exec(op)
		if got.Panic != "" {
			return fail("C12", i, op, "panic: "+got.Panic)
		}
		checkUnchanged := func(why string) *vt.Failure {
			if mis := verifyRow(s, mt, tbl, op.Key); mis != "" {
				return fail("C12", i, op, why+": row changed although the request failed: "+mis)
			}
			return nil
		}
		switch {
		case unspec:
			labels["predicate-unspecified-by-docs"] = true
			// resynchronise the model with whatever happened
			after := s.ReadKey("", tbl, op.Key)
			nr := bt.MRow{}
			for _, r := range after.Rows {
				for _, cl := range r.Cells {
					if nr[cl.Fam] == nil {
						nr[cl.Fam] = map[string]map[int64]string{}
					}
					if nr[cl.Fam][string(cl.Qual)] == nil {
						nr[cl.Fam][string(cl.Qual)] = map[int64]string{}
					}
					nr[cl.Fam][string(cl.Qual)][cl.TS] = string(cl.Val)
				}
			}
			if nr.Empty() {
				delete(mt.Rows, string(op.Key))
			} else {
				mt.Rows[string(op.Key)] = nr
			}
			continue
		case mustReject:
			labels["predicate-invalid"] = true
			if got.Code == 0 {
				return fail("C12", i, op, "invalid predicate accepted")
			}
			if f := checkUnchanged("invalid predicate"); f != nil {
				return f
			}
			continue
		case got.Code != 0 && mayReject:
			if f := checkUnchanged("predicate rejected up front"); f != nil {
				return f
			}
			continue
		}
		sel, other := op.FMuts, op.TMuts
		if matched {
			sel, other = op.TMuts, op.FMuts
		}
		nr, v := bt.ApplyMuts(mt.Fams, row, sel, m.Clock)
		_, ov := bt.ApplyMuts(mt.Fams, row, other, m.Clock)
		if got.Code != 0 {
			if v == bt.VErr || v == bt.VEither || ov == bt.VErr {
				if f := checkUnchanged("rejected request"); f != nil {
					return f
				}
				if v == bt.VErr {
					labels["selected-branch-invalid"] = true
				}
				continue
			}
			return fail("C12", i, op, fmt.Sprintf("valid request rejected: code %d (%s)", got.Code, got.Msg))
		}
		if v == bt.VErr {
			return fail("C12", i, op, fmt.Sprintf("invalid mutation in the selected branch (matched=%v) accepted", matched))
		}
		if got.Matched != matched {
			return fail("C12", i, op, fmt.Sprintf("predicate_matched=%v, evaluator says %v (row cells %d)", got.Matched, matched, len(cells)))
		}
		if nr.Empty() {
			delete(mt.Rows, string(op.Key))
		} else {
			mt.Rows[string(op.Key)] = nr
		}
		if mis := verifyScan(s, mt, "", tbl); mis != "" {
			return fail("C12", i, op, fmt.Sprintf("after applying the %v branch: %s", matched, mis))
		}
		outcomes[matched] = true
		if op.Pred != nil {
			labels[fmt.Sprintf("matched=%v", matched)] = true
			if len(cells) > 0 && !matched {
				labels["row-has-cells-but-predicate-yields-none"] = true
			}
			if len(op.TMuts) > 0 && len(op.FMuts) > 0 && len(cells) > 0 {
				nontrivial = true
			}
		} else {
			labels["no-predicate"] = true
		}
	}
	var ls []string
	for l := range labels {
		ls = append(ls, l)
	}
	ev.Case(c, nontrivial, ls...)
	return nil
}

func TestC12(t *testing.T) {
	vt.Prop[C12Case]{ID: "C12", Test: "TestC12",
		Rule: "rapid-generated row histories followed by CheckAndMutateRow requests: predicates from the C05 filter grammar plus a list of 'matches but yields no cell' / erroring predicates, true/false mutation lists (possibly empty or invalid), 3 engines; oracle = three-way agreement of the independent filter evaluator on the emulator's unfiltered row, the emulator's own ReadRows with the predicate as filter, and predicate_matched, then row == model(selected list), whole table re-scanned; non-trivial = predicate present on a row with cells and both lists non-empty",
		Gen:  genC12(), Run: runC12}.Main(t)
}
