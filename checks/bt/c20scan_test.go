package btchecks

import (
	"fmt"
	"os"
	"strings"
	"sync/atomic"
	"testing"
	"time"

	"pgregory.net/rapid"

	"verif/internal/bt"
	"verif/internal/vt"
)

// C20 (scan part) — a multi-message ReadRows is parked inside its Sends (where
// it has given up the table lock) while admin requests that restructure or
// remove what it is iterating over run to acknowledgement: DropRowRange(all),
// DropRowRange(prefix), family drop / re-create, DeleteTable, delete +
// re-create, bulk writes. The scan has to end with a status, never a panic,
// and the server must afterwards hold exactly what the acknowledged requests
// left. Unlike the free-running mix this owns the interleaving, and it puts the
// table's data where the engines keep it once a table has grown or was
// reopened: in leveldb table files, not only in the memtable.

type C20ScanStep struct {
	K   string `json:"k"` // dropall | dropprefix | dropfam | addfam | deltable | recreate | write | bigwrite
	Arg int    `json:"arg,omitempty"`
}

type C20ScanCase struct {
	Engine string          `json:"engine"`
	NRows  int             `json:"nrows"`
	Big    bool            `json:"big,omitempty"`    // ~4 KB values: the table outgrows the 4 MiB write buffer and spills to table files
	Reopen bool            `json:"reopen,omitempty"` // disk engine: server closed and reopened before the scan (journal -> table files)
	Ranged bool            `json:"ranged,omitempty"`
	Gaps   [][]C20ScanStep `json:"gaps"`
}

func genC20Scan() *rapid.Generator[C20ScanCase] {
	return rapid.Custom(func(t *rapid.T) C20ScanCase {
		c := C20ScanCase{Engine: rapid.SampledFrom([]string{"btree", "leveldb-mem", "leveldb-mem", "leveldb-disk", "leveldb-disk"}).Draw(t, "engine"),
			NRows: rapid.IntRange(1100, 2400).Draw(t, "nrows"), Ranged: rapid.IntRange(0, 3).Draw(t, "ranged") == 0}
		c.Big = rapid.IntRange(0, 3).Draw(t, "big") == 0
		if c.Engine == "leveldb-disk" {
			c.Reopen = rapid.Bool().Draw(t, "reopen")
		}
		st := rapid.Custom(func(t *rapid.T) C20ScanStep {
			return C20ScanStep{K: rapid.SampledFrom([]string{"dropall", "dropall", "dropprefix", "dropfam", "addfam", "deltable", "recreate", "write", "write", "bigwrite"}).Draw(t, "k"),
				Arg: rapid.IntRange(0, 9).Draw(t, "arg")}
		})
		c.Gaps = rapid.SliceOfN(rapid.SliceOfN(st, 0, 3), 1, 4).Draw(t, "gaps")
		return c
	})
}

func c20ScanVal(i, size int, tag string) bt.BS {
	s := fmt.Sprintf("%s-%05d-", tag, i)
	if size > len(s) {
		s += strings.Repeat("v", size-len(s))
	}
	return bt.BS(s)
}

func (st C20ScanStep) ops(c *C20ScanCase, gap int) []*bt.Op {
	tag := fmt.Sprintf("g%d", gap)
	write := func(size, n int) *bt.Op {
		op := &bt.Op{K: "MutateRows", Table: tbl}
		for j := 0; j < n; j++ {
			i := (st.Arg*211 + j*97) % (c.NRows + 50) // some of them new keys beyond the initial rows
			op.Entries = append(op.Entries, bt.Entry{Key: c18Key(i), Muts: []bt.Mut{{K: "set", Fam: "f", Qual: "c0", TS: 2000, Val: c20ScanVal(i, size, tag)}}})
		}
		return op
	}
	switch st.K {
	case "dropall":
		return []*bt.Op{{K: "DropRowRange", Table: tbl, All: true}}
	case "dropprefix":
		return []*bt.Op{{K: "DropRowRange", Table: tbl, Prefix: bt.BS(fmt.Sprintf("r0%d", st.Arg%3))}}
	case "dropfam":
		return []*bt.Op{{K: "ModifyCF", Table: tbl, Mods: []bt.Mod{{K: "drop", ID: "g"}}}}
	case "addfam":
		return []*bt.Op{{K: "ModifyCF", Table: tbl, Mods: []bt.Mod{{K: "create", ID: "g"}}}}
	case "deltable":
		return []*bt.Op{{K: "DeleteTable", Table: tbl}}
	case "recreate":
		return []*bt.Op{{K: "DeleteTable", Table: tbl}, {K: "CreateTable", Table: tbl, Fams: []bt.FamDef{{Name: "f"}, {Name: "g"}}}, write(8, 5)}
	case "bigwrite":
		return []*bt.Op{write(3000, 40)}
	default:
		return []*bt.Op{write(8, 20)}
	}
}

func runC20Scan(c C20ScanCase, ev *vt.Ev) *vt.Failure {
	vt.WriteCurrent("TestC20Scan", "C20", c)
	defer vt.ClearCurrent("TestC20Scan")
	dir := ""
	if c.Engine == "leveldb-disk" {
		d, err := os.MkdirTemp("", "c20scan")
		if err != nil {
			return vt.Failf("C20", "harness: %v", err)
		}
		defer os.RemoveAll(d)
		dir = d
	}
	s, err := bt.NewSrv(c.Engine, dir)
	if err != nil {
		return vt.Failf("C20", "server start: %v", err)
	}
	defer func() { s.Close() }()
	s.SetClock(5000)
	m := bt.NewModel()
	m.Clock = 5000
	if f := mustCreate(s, m, tbl, []string{"f", "g"}); f != nil {
		f.Property = "C20"
		return f
	}
	size := 6
	if c.Big {
		size = 4200
	}
	var entries []bt.Entry
	for i := 0; i < c.NRows; i++ {
		muts := []bt.Mut{{K: "set", Fam: "f", Qual: "c0", TS: 1000, Val: c20ScanVal(i, size, "init")}}
		if i%2 == 0 {
			muts = append(muts, bt.Mut{K: "set", Fam: "g", Qual: "c0", TS: 1000, Val: "x"})
		}
		entries = append(entries, bt.Entry{Key: c18Key(i), Muts: muts})
		if len(entries) == 400 || i == c.NRows-1 {
			op := &bt.Op{K: "MutateRows", Table: tbl, Entries: entries}
			if mis := m.Step(op, s.Exec(op)); mis != "" {
				return vt.Failf("C20", "setup: %s", mis)
			}
			entries = nil
		}
	}
	if c.Reopen {
		s.Close()
		if s, err = bt.NewSrv(c.Engine, dir); err != nil {
			return vt.Failf("C20", "reopen: %v", err)
		}
		s.SetClock(5000)
	}
	// every state a row had while the scan ran (nil = absent)
	full := bt.DefaultParent + "/tables/" + tbl
	versions := map[string][]bt.MRow{}
	snapshot := func() {
		t := m.Tables[full]
		seen := map[string]bool{}
		if t != nil {
			for k, r := range t.Rows {
				seen[k] = true
				if r.Empty() {
					versions[k] = append(versions[k], nil)
				} else {
					versions[k] = append(versions[k], r.Clone())
				}
			}
		}
		for k := range versions {
			if !seen[k] {
				versions[k] = append(versions[k], nil)
			}
		}
	}
	snapshot()
	var rs *bt.RowSet
	lo, hi := bt.BS(""), bt.BS("\xff")
	if c.Ranged {
		lo, hi = c18Key(c.NRows/10), c18Key(c.NRows-c.NRows/10)
		rs = &bt.RowSet{Ranges: []bt.Range{{S: bt.Bound{K: 2, V: lo}, E: bt.Bound{K: 1, V: c18Key(c.NRows / 2)}}, {S: bt.Bound{K: 2, V: c18Key(c.NRows / 2)}, E: bt.Bound{K: 1, V: hi}}}}
	}
	var gapErr string
	admin, gaps := 0, 0
	labels := map[string]bool{"engine=" + c.Engine: true}
	var inGap int32 // the scan goroutine is inside the harness's Send hook, not inside the emulator
	onSend := func(n int) error {
		atomic.StoreInt32(&inGap, 1)
		defer atomic.StoreInt32(&inGap, 0)
		if n-1 >= len(c.Gaps) || gapErr != "" {
			return nil
		}
		if len(c.Gaps[n-1]) > 0 {
			gaps++
		}
		for _, st := range c.Gaps[n-1] {
			for _, op := range st.ops(&c, n) {
				done := make(chan *bt.Result, 1)
				fin := make(chan struct{})
				go func() { done <- s.Exec(op); close(fin) }()
				// s.Exec reports a request that is blocked for good itself (HANG); this only bounds a machine too slow to judge
				vt.Await(fin, 120*time.Second, nil, "request issued while the scan is parked")
				{
					r := <-done
					if r.Panic != "" {
						gapErr = fmt.Sprintf("%s issued while the scan was parked in Send #%d panicked: %s", op.K, n, r.Panic)
						return nil
					}
					if mis := m.Step(op, r); mis != "" {
						gapErr = fmt.Sprintf("%s issued while the scan was parked in Send #%d: %s", op.K, n, mis)
						return nil
					}
					snapshot()
				}
			}
			if st.K != "write" && st.K != "bigwrite" {
				admin++
				labels["during-scan:"+st.K] = true
			}
		}
		return nil
	}
	scanDone := make(chan *bt.Result, 1)
	scanFin := make(chan struct{})
	var scanG vt.GoidSet
	go func() {
		scanG.Add()
		scanDone <- s.ExecCtx(nil2ctx(), &bt.Op{K: "ReadRows", Table: tbl, Rows: rs}, onSend)
		close(scanFin)
	}()
	scanIDs := func() []int64 {
		if atomic.LoadInt32(&inGap) == 1 {
			return nil
		}
		return scanG.IDs()
	}
	if mis := vt.Await(scanFin, 120*time.Second, scanIDs, "scan"); mis != "" {
		return vt.Failf("C20", "the scan did not finish (hang): %s", mis)
	}
	got := <-scanDone
	if gapErr != "" {
		return vt.Failf("C20", "%s", gapErr)
	}
	if got.Panic != "" {
		return vt.Failf("C20", "scan panicked after %d messages: %s", got.Msgs, got.Panic)
	}
	labels[fmt.Sprintf("scan-status=%d", got.Code)] = true
	if got.Code == 0 && got.StreamErr != "" {
		return vt.Failf("C20", "scan ended OK with a malformed stream: %s", got.StreamErr)
	}
	if got.StreamErr == "" {
		for i, r := range got.Rows {
			if i > 0 && !(got.Rows[i-1].Key < r.Key) {
				return vt.Failf("C20", "scan keys not strictly ascending: %q then %q", got.Rows[i-1].Key, r.Key)
			}
			if r.Key < lo || r.Key >= hi {
				return vt.Failf("C20", "scan returned row %q outside the requested row set", r.Key)
			}
			// no property promises a scan a consistent view across schema changes and range drops (C18 speaks of row
			// writes only), but whatever it returns must be real: every cell must be a cell this row had at some
			// moment while the scan ran - nothing invented, nothing from another row or another table's files
			have := map[string]bool{}
			for _, v := range versions[string(r.Key)] {
				if v != nil {
					for _, cl := range v.Cells() {
						have[fmt.Sprintf("%s\x00%s\x00%d\x00%s", cl.Fam, cl.Qual, cl.TS, cl.Val)] = true
					}
				}
			}
			for _, cl := range r.Cells {
				if !have[fmt.Sprintf("%s\x00%s\x00%d\x00%s", cl.Fam, cl.Qual, cl.TS, cl.Val)] {
					return vt.Failf("C20", "row %q as returned by the scan has cell %s:%q@%d (%d bytes) that the row never had while the scan ran", r.Key, cl.Fam, cl.Qual, cl.TS, len(cl.Val))
				}
			}
			if len(r.Cells) == 0 {
				return vt.Failf("C20", "scan returned row %q without cells", r.Key)
			}
		}
	}
	// afterwards: valid requests are served and the stored data is what the acknowledged requests left
	if t := m.Tables[full]; t != nil {
		if mis := verifyScan(s, t, "", tbl); mis != "" {
			return vt.Failf("C20", "after the scan: %s", mis)
		}
	} else if r := s.ReadAll("", tbl); r.Panic != "" || r.Code == 0 {
		return vt.Failf("C20", "after the scan: read of the deleted table: code %d panic %q", r.Code, r.Panic)
	}
	for _, op := range []*bt.Op{{K: "CreateTable", Table: "after", Fams: []bt.FamDef{{Name: "f"}}},
		{K: "MutateRow", Table: "after", Key: "k", Muts: []bt.Mut{{K: "set", Fam: "f", Qual: "q", TS: 1000, Val: "v"}}}} {
		if mis := m.Step(op, s.Exec(op)); mis != "" {
			return vt.Failf("C20", "after the scan: %s: %s", op.K, mis)
		}
	}
	if mis := verifyScan(s, m.Tables[bt.DefaultParent+"/tables/after"], "", "after"); mis != "" {
		return vt.Failf("C20", "after the scan: %s", mis)
	}
	if c.Big {
		labels["data-in-table-files(big)"] = true
	}
	if c.Reopen {
		labels["data-in-table-files(reopened)"] = true
	}
	var ls []string
	for l := range labels {
		ls = append(ls, l)
	}
	ev.Case(c, got.Msgs >= 2 && admin >= 1 && gaps >= 1, ls...)
	return nil
}

func TestC20Scan(t *testing.T) {
	vt.Prop[C20ScanCase]{ID: "C20", Test: "TestC20Scan",
		Rule: "owned interleaving, 3 engines: a full or two-range ReadRows over 1100-2400 rows (small values, or ~4 KB values so that the table outgrows the engine's write buffer and lives in leveldb table files, or a disk table closed and reopened before the scan) is parked inside each of its first Sends while drawn admin/data requests run to acknowledgement: DropRowRange(all), DropRowRange(prefix), drop / create of a family, DeleteTable, DeleteTable+CreateTable+writes, small and 120 KB MutateRows; every such request is checked against the sequential model; oracle: no panic in the scan or in any request, the scan ends with a status, an OK scan is a well-formed stream with strictly ascending keys inside the row set, every returned cell being a cell that row had at some moment while the scan ran; afterwards a full read equals the model and a new table can be created, written and read; non-trivial = multi-message scan with >=1 admin request acknowledged while it was parked",
		Gen:  genC20Scan(), Run: runC20Scan}.Main(t)
}
