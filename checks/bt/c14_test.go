package btchecks

import (
	"fmt"
	"strings"
	"testing"

	"pgregory.net/rapid"

	"verif/internal/bt"
	"verif/internal/vt"
)

// C14 — table, family and row-range admin changes exactly what it names.

type ProgCase struct {
	Engine string  `json:"engine"`
	Steps  []bt.Op `json:"steps"`
}

var c14Tables = []string{"t", "t2", "T-x.y", "u"}
var c14Parents = []string{"", "projects/p/instances/i2"}
var c14Keys = []bt.BS{"a", "a\x00", "a\xff", "a\xff\x01", "b", "ab", "\xff", "\xff\xff", "b\x00", "\x00"}
var c14Quals = []bt.BS{"q", "", "q2"}

func genC14() *rapid.Generator[ProgCase] {
	return rapid.Custom(func(t *rapid.T) ProgCase {
		c := ProgCase{Engine: rapid.SampledFrom(bt.Engines).Draw(t, "engine")}
		ctx := bt.ProgCtx{Tables: c14Tables[:rapid.IntRange(1, 4).Draw(t, "ntables")], Parents: c14Parents[:rapid.IntRange(1, 2).Draw(t, "nparents")],
			Fams: bt.AllFams, Keys: c14Keys, Quals: c14Quals, InvalidPct: rapid.SampledFrom([]int{0, 5}).Draw(t, "invalidPct"), Admin: 8, Reads: 0, Sample: false}
		// start with a table so that data steps have a target most of the time
		first := bt.Op{K: "CreateTable", Table: ctx.Tables[0], Fams: []bt.FamDef{{Name: "f"}, {Name: "g"}}}
		c.Steps = append([]bt.Op{first}, rapid.SliceOfN(bt.GenOp(ctx), 4, 50).Draw(t, "steps")...)
		if rapid.IntRange(0, 3).Draw(t, "scenario") == 0 {
			// splice the drop / re-create scenario in at a drawn position
			sc := bt.GenDropRecreate(ctx.Tables[0], "", c14Keys).Draw(t, "droprecreate")
			at := rapid.IntRange(1, len(c.Steps)).Draw(t, "at")
			c.Steps = append(append(append([]bt.Op{}, c.Steps[:at]...), sc...), c.Steps[at:]...)
		}
		return c
	})
}

// observeAll compares every observable of the registry with the model.
func observeAll(s bt.Execer, m *bt.Model, parents []string, withSample bool) string {
	for _, p := range parents {
		op := &bt.Op{K: "ListTables", Parent: p}
		if mis := m.Step(op, s.Exec(op)); mis != "" {
			return mis
		}
	}
	for name, mt := range m.Tables {
		i := strings.Index(name, "/tables/")
		parent, id := name[:i], name[i+len("/tables/"):]
		op := &bt.Op{K: "GetTable", Parent: parent, Table: id}
		if mis := m.Step(op, s.Exec(op)); mis != "" {
			return fmt.Sprintf("table %s: %s", name, mis)
		}
		if mis := verifyScan(s, mt, parent, id); mis != "" {
			return fmt.Sprintf("table %s: %s", name, mis)
		}
		if withSample {
			op := &bt.Op{K: "Sample", Parent: parent, Table: id}
			if mis := m.Step(op, s.Exec(op)); mis != "" {
				return fmt.Sprintf("table %s: %s", name, mis)
			}
		}
	}
	return ""
}

func resyncRow(s *bt.Srv, m *bt.Model, op *bt.Op) {
	mt := m.Tables[op.FullName()]
	if mt == nil {
		return
	}
	after := s.ReadKey(op.ParentName(), op.Table, op.Key)
	nr := bt.MRow{}
	for _, r := range after.Rows {
		for _, cl := range r.Cells {
			if nr[cl.Fam] == nil {
				nr[cl.Fam] = map[string]map[int64]string{}
			}
			if nr[cl.Fam][string(cl.Qual)] == nil {
				nr[cl.Fam][string(cl.Qual)] = map[int64]string{}
			}
			nr[cl.Fam][string(cl.Qual)][cl.TS] = string(cl.Val)
		}
	}
	if nr.Empty() {
		delete(mt.Rows, string(op.Key))
	} else {
		mt.Rows[string(op.Key)] = nr
	}
}

func runC14(c ProgCase, ev *vt.Ev) *vt.Failure {
	s, err := bt.NewSrv(c.Engine, "")
	if err != nil {
		return vt.Failf("C14", "server start: %v", err)
	}
	defer s.Close()
	m := bt.NewModel()
	parents := []string{"", "projects/p/instances/i2"}
	labels := map[string]bool{"engine=" + c.Engine: true}
	okAdmin, failAdmin := 0, 0
	for i := range c.Steps {
		op := &c.Steps[i]
		before := len(m.Tables)
		res := s.Exec(op)
		mis := m.Step(op, res)
		if strings.Contains(mis, "UNSPEC:") {
			resyncRow(s, m, op)
			mis = ""
		}
		if mis != "" {
			return fail("C14", i, op, mis)
		}
		switch op.K {
		case "CreateTable", "DeleteTable", "ModifyCF", "DropRowRange":
			if res.Code == 0 {
				okAdmin++
				labels["ok:"+op.K] = true
				if op.K == "DeleteTable" && before > len(m.Tables) {
					labels["table-deleted"] = true
				}
				if op.K == "DropRowRange" && strings.HasSuffix(string(op.Prefix), "\xff") {
					labels["prefix-ending-0xff"] = true
				}
			} else {
				failAdmin++
				labels["rejected:"+op.K] = true
				if op.K == "ModifyCF" && len(op.Mods) > 1 && res.Code != bt.CodeNotFound {
					labels["failing-multi-modification"] = true
				}
			}
		}
		if mis := observeAll(s, m, parents, true); mis != "" {
			return fail("C14", i, op, "after the request: "+mis)
		}
	}
	withData := 0
	for _, mt := range m.Tables {
		if len(mt.Rows) > 0 {
			withData++
		}
	}
	var ls []string
	for l := range labels {
		ls = append(ls, l)
	}
	ev.Case(c, okAdmin >= 1 && failAdmin >= 1 && withData >= 1, ls...)
	return nil
}

func TestC14(t *testing.T) {
	vt.Prop[ProgCase]{ID: "C14", Test: "TestC14",
		Rule: "rapid-generated programs (5-50 requests) of CreateTable/GetTable/ListTables/DeleteTable/ModifyColumnFamilies (1-4 modifications, failing at position k)/DropRowRange (adversarial prefixes, delete-all) interleaved with data writes over <=4 tables x 2 parents on 3 engines; after EVERY request ListTables(both parents), GetTable + full scan + SampleRowKeys of every model table are compared with a registry model; non-trivial = >=1 successful and >=1 rejected admin change with data present at the end",
		Gen:  genC14(), Run: runC14}.Main(t)
}
