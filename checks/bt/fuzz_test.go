package btchecks

import (
	"context"
	"testing"

	"google.golang.org/protobuf/proto"

	"verif/internal/bt"
)

// Native coverage-guided fuzzing of the Bigtable handlers (thorough tier of C20).
// Input: engine/rpc selector + wire bytes of the request. State is rebuilt at
// the top of every iteration (fresh server, canary table, one data table).

func fuzzSeedsBT(f *testing.F) {
	ctx := bt.ProgCtx{Tables: c20Tables, Fams: bt.AllFams, Keys: c14Keys, Quals: c14Quals, InvalidPct: 10, Admin: 4, Reads: 6, Filters: true, Sample: true,
		FilterOpts: bt.FilterOpts{Fams: bt.AllFams, Keys: c14Keys, Quals: c14Quals, Vals: c05Vals, InvalidPct: 15, Sample: true}}
	add := func(op *bt.Op) {
		rpc, msg, ok := bt.BuildReq(op)
		if !ok {
			return
		}
		buf, err := proto.Marshal(msg)
		if err != nil {
			return
		}
		for i, n := range bt.RPCNames {
			if n == rpc {
				f.Add(byte(i), buf)
			}
		}
	}
	for i := 0; i < 120; i++ {
		op := bt.GenOp(ctx).Example(i)
		add(&op)
		h := bt.GenHostileOp(c20Tables).Example(i)
		if len(h.Table) < 1000 && len(h.Parent) < 1000 && len(h.Key) < 1000 {
			add(&h)
		}
	}
}

func FuzzC20BT(f *testing.F) {
	fuzzSeedsBT(f)
	f.Fuzz(func(t *testing.T, sel byte, payload []byte) {
		engine := "leveldb-mem"
		if sel&0x80 != 0 {
			engine = "btree"
		}
		rpc := bt.RPCNames[int(sel&0x7f)%len(bt.RPCNames)]
		s, err := bt.NewSrv(engine, "")
		if err != nil {
			t.Skip()
		}
		defer s.Close()
		if fl := canaryWrite(s); fl != nil {
			t.Fatalf("%s", fl.Msg)
		}
		s.Exec(&bt.Op{K: "CreateTable", Table: "t", Fams: []bt.FamDef{{Name: "f"}, {Name: "g"}}})
		s.Exec(&bt.Op{K: "MutateRows", Table: "t", Entries: []bt.Entry{
			{Key: "a", Muts: []bt.Mut{{K: "set", Fam: "f", Qual: "q", TS: 1000, Val: "v1"}, {K: "set", Fam: "g", Qual: "q2", TS: 2000, Val: "\x00\x00\x00\x00\x00\x00\x00\x05"}}},
			{Key: "a\x00", Muts: []bt.Mut{{K: "set", Fam: "f", Qual: "", TS: 0, Val: ""}}},
			{Key: "b", Muts: []bt.Mut{{K: "set", Fam: "g", Qual: "q", TS: 3000, Val: "x\ny"}}}}})
		res, ok := s.ExecRaw(context.Background(), rpc, payload)
		if !ok {
			return
		}
		if res.Panic != "" {
			t.Fatalf("%s panicked: %s", rpc, res.Panic)
		}
		if res.StreamErr != "" && res.Code == 0 {
			t.Fatalf("%s: malformed stream: %s", rpc, res.StreamErr)
		}
		if mis := canaryProbe(s, 0); mis != "" {
			t.Fatalf("after %s: %s", rpc, mis)
		}
	})
}
