package btchecks

import (
	"context"
	"fmt"
	"net"
	"os"
	"os/exec"
	"path/filepath"
	"strings"
	"sync"
	"syscall"
	"testing"
	"time"

	"pgregory.net/rapid"

	"verif/internal/bt"
	"verif/internal/vt"
)

// C08 (real process kill): the cbtemulator binary, built from /repo without
// the verif tag, is driven over gRPC and killed with SIGKILL while requests
// are in flight; a new process is started on the same directory.

type C08KillLife struct {
	Ops      []bt.Op `json:"ops"`      // acknowledged one after the other
	InFlight int     `json:"inflight"` // number of requests launched right before the kill
	DelayUS  int     `json:"delayus"`  // time between launching them and SIGKILL
}

type C08KillCase struct {
	Lives []C08KillLife `json:"lives"`
}

func genC08Kill() *rapid.Generator[C08KillCase] {
	return rapid.Custom(func(t *rapid.T) C08KillCase {
		ctx := bt.ProgCtx{Tables: c14Tables[:2], Fams: bt.AllFams, Keys: c14Keys, Quals: c14Quals, InvalidPct: 0, Admin: 5, Reads: 0}
		var c C08KillCase
		for l, n := 0, rapid.IntRange(2, 5).Draw(t, "lives"); l < n; l++ {
			life := C08KillLife{Ops: rapid.SliceOfN(bt.GenOp(ctx), 2, 15).Draw(t, "ops"), InFlight: rapid.IntRange(0, 4).Draw(t, "inflight"),
				DelayUS: rapid.SampledFrom([]int{0, 50, 200, 500, 2000}).Draw(t, "delay")}
			if l == 0 {
				life.Ops = append([]bt.Op{{K: "CreateTable", Table: "t", Fams: []bt.FamDef{{Name: "f", GC: &bt.GC{K: "maxv", N: 3}}, {Name: "g"}}}}, life.Ops...)
			}
			c.Lives = append(c.Lives, life)
		}
		return c
	})
}

var cbtOnce sync.Once
var cbtPath string
var cbtErr error

// cbtBinary returns the emulator binary (built by the driver, or here on first use).
func cbtBinary() (string, error) {
	cbtOnce.Do(func() {
		if p := os.Getenv("VERIF_CBT"); p != "" {
			if _, err := os.Stat(p); err == nil {
				cbtPath = p
				return
			}
		}
		out := filepath.Join(os.TempDir(), fmt.Sprintf("cbtemulator-%d", os.Getpid()))
		cmd := exec.Command("go", "build", "-o", out, "github.com/fullstorydev/emulators/bigtable/cmd/cbtemulator")
		cmd.Dir = os.Getenv("VERIF_ROOT")
		if b, err := cmd.CombinedOutput(); err != nil {
			cbtErr = fmt.Errorf("building cbtemulator: %v: %s", err, b)
			return
		}
		cbtPath = out
	})
	return cbtPath, cbtErr
}

func freePort() int {
	l, err := net.Listen("tcp", "127.0.0.1:0")
	if err != nil {
		panic(err)
	}
	defer l.Close()
	return l.Addr().(*net.TCPAddr).Port
}

type cbtProc struct {
	cmd  *exec.Cmd
	addr string
	r    *bt.Remote
}

func startCbt(bin, dir string) (*cbtProc, error) {
	for attempt := 0; attempt < 5; attempt++ {
		port := freePort()
		cmd := exec.Command(bin, "-host", "127.0.0.1", "-port", fmt.Sprint(port), "-dir", dir)
		cmd.Stdout, cmd.Stderr = nil, nil
		if err := cmd.Start(); err != nil {
			return nil, err
		}
		addr := fmt.Sprintf("127.0.0.1:%d", port)
		r, err := bt.DialRemote(addr, 10*time.Second)
		if err == nil {
			return &cbtProc{cmd: cmd, addr: addr, r: r}, nil
		}
		_ = cmd.Process.Kill()
		_, _ = cmd.Process.Wait()
		if attempt == 4 {
			return nil, fmt.Errorf("emulator process did not come up on %s: %v", dir, err)
		}
	}
	return nil, fmt.Errorf("unreachable")
}

func (p *cbtProc) kill() {
	_ = p.cmd.Process.Signal(syscall.SIGKILL)
	_, _ = p.cmd.Process.Wait()
	p.r.Close()
}

func runC08Kill(c C08KillCase, ev *vt.Ev) *vt.Failure {
	bin, err := cbtBinary()
	if err != nil {
		panic("HARNESS: " + err.Error())
	}
	dir, err := os.MkdirTemp("", "btkill")
	if err != nil {
		panic("HARNESS: " + err.Error())
	}
	defer os.RemoveAll(dir)
	m := bt.NewModel()
	parents := []string{""}
	kills, present, absent := 0, 0, 0
	adminOK, dataWrites := 0, 0
	var pending []*bt.Op // in-flight at the last kill, outcome unknown
	for li := range c.Lives {
		life := &c.Lives[li]
		p, err := startCbt(bin, dir)
		if err != nil {
			return vt.Failf("C08", "life %d: restart on the directory left by SIGKILL failed: %v", li, err)
		}
		x := bt.RemoteExec{R: p.r, Timeout: 20 * time.Second}
		// resolve the requests that were in flight when the previous process was killed: wholly present or wholly absent
		for _, op := range pending {
			switch op.K {
			case "MutateRow":
				got := x.Exec(&bt.Op{K: "ReadRows", Table: op.Table, Rows: &bt.RowSet{Keys: []bt.BS{op.Key}}})
				mt := m.Tables[op.FullName()]
				if mt == nil {
					continue
				}
				full, _ := bt.ApplyMuts(mt.Fams, mt.Rows[string(op.Key)], op.Muts, 0)
				switch {
				case got.OK() && len(got.Rows) == 0 && len(mt.Rows[string(op.Key)]) == 0:
					absent++
				case got.OK() && len(got.Rows) == 1 && bt.SameCells(got.Rows[0].Cells, full.Cells()) == "":
					mt.Rows[string(op.Key)] = full
					present++
				default:
					p.kill()
					return vt.Failf("C08", "life %d: request in flight at SIGKILL (MutateRow %q, %d mutations) is neither wholly present nor wholly absent after restart: %+v", li, op.Key, len(op.Muts), got.Rows)
				}
			case "ModifyCF":
				got := x.Exec(&bt.Op{K: "GetTable", Table: op.Table})
				mt := m.Tables[op.FullName()]
				if mt == nil || !got.OK() {
					continue
				}
				if _, ok := got.Def.Fams[op.Mods[0].ID]; ok {
					mt.Fams[op.Mods[0].ID] = op.Mods[0].GC
					present++
				} else {
					absent++
				}
			}
		}
		pending = nil
		if mis := observeAll(x, m, parents, false); mis != "" {
			p.kill()
			return vt.Failf("C08", "life %d: state served after SIGKILL + restart differs from the acknowledged state: %s", li, mis)
		}
		for i := range life.Ops {
			op := &life.Ops[i]
			op.Clock = nil
			// the real binary uses the wall clock: server-assigned timestamps and read-modify-writes are replaced
			fix := func(ms []bt.Mut) {
				for j := range ms {
					if ms[j].K == "set" && ms[j].TS == -1 {
						ms[j].TS = 7000
					}
				}
			}
			fix(op.Muts)
			fix(op.TMuts)
			fix(op.FMuts)
			for j := range op.Entries {
				fix(op.Entries[j].Muts)
			}
			if op.K == "RMW" {
				op.K, op.Rules = "MutateRow", nil
				op.Muts = []bt.Mut{{K: "set", Fam: "f", Qual: "rmw", TS: 1000, Val: "x"}}
			}
			res := x.Exec(op)
			mis := m.Step(op, res)
			if strings.Contains(mis, "UNSPEC:") {
				mis = ""
			}
			if mis != "" {
				p.kill()
				return vt.Failf("C08", "life %d step %d (%s) over gRPC: %s", li, i, op.K, mis)
			}
			if res.Code == 0 {
				switch op.K {
				case "CreateTable", "DeleteTable", "ModifyCF", "DropRowRange":
					adminOK++
				case "MutateRow", "MutateRows":
					dataWrites++
				}
			}
		}
		// launch requests and kill the process while they are in flight
		var wg sync.WaitGroup
		var mu sync.Mutex
		for k := 0; k < life.InFlight; k++ {
			var op *bt.Op
			if _, ok := m.Tables[(&bt.Op{Table: "t"}).FullName()]; !ok {
				break
			}
			if k == 3 {
				op = &bt.Op{K: "ModifyCF", Table: "t", Mods: []bt.Mod{{K: "create", ID: fmt.Sprintf("x%d", li), GC: &bt.GC{K: "maxv", N: 1}}}}
			} else {
				var muts []bt.Mut
				for q := 0; q < 6; q++ {
					muts = append(muts, bt.Mut{K: "set", Fam: "f", Qual: bt.BS(fmt.Sprintf("q%d", q)), TS: 1000, Val: bt.BS(strings.Repeat("v", 200))})
				}
				op = &bt.Op{K: "MutateRow", Table: "t", Key: bt.BS(fmt.Sprintf("inflight-%d-%d", li, k)), Muts: muts}
			}
			if _, ok := m.Tables[op.FullName()].Fams["f"]; !ok && op.K == "MutateRow" {
				continue
			}
			wg.Add(1)
			go func(op *bt.Op) {
				defer wg.Done()
				ctx, cancel := context.WithTimeout(context.Background(), 5*time.Second)
				defer cancel()
				res := p.r.Exec(ctx, op)
				mu.Lock()
				defer mu.Unlock()
				if res.Code == 0 {
					// acknowledged before the kill: must be present
					if mis := m.Step(op, res); mis != "" {
						pending = append(pending, op)
					}
				} else {
					pending = append(pending, op)
				}
			}(op)
		}
		time.Sleep(time.Duration(life.DelayUS) * time.Microsecond)
		p.kill()
		wg.Wait()
		kills++
	}
	// final life: everything acknowledged must be there
	p, err := startCbt(bin, dir)
	if err != nil {
		return vt.Failf("C08", "final restart failed: %v", err)
	}
	defer p.kill()
	x := bt.RemoteExec{R: p.r, Timeout: 20 * time.Second}
	for _, op := range pending {
		// resolve as above (only the row form matters for the final comparison)
		if op.K == "MutateRow" {
			if mt := m.Tables[op.FullName()]; mt != nil {
				got := x.Exec(&bt.Op{K: "ReadRows", Table: op.Table, Rows: &bt.RowSet{Keys: []bt.BS{op.Key}}})
				full, _ := bt.ApplyMuts(mt.Fams, mt.Rows[string(op.Key)], op.Muts, 0)
				if got.OK() && len(got.Rows) == 1 && bt.SameCells(got.Rows[0].Cells, full.Cells()) == "" {
					mt.Rows[string(op.Key)] = full
				} else if !(got.OK() && len(got.Rows) == 0) {
					return vt.Failf("C08", "request in flight at the last SIGKILL is neither wholly present nor wholly absent: %+v", got.Rows)
				}
			}
		} else if op.K == "ModifyCF" {
			if mt := m.Tables[op.FullName()]; mt != nil {
				if got := x.Exec(&bt.Op{K: "GetTable", Table: op.Table}); got.OK() {
					if _, ok := got.Def.Fams[op.Mods[0].ID]; ok {
						mt.Fams[op.Mods[0].ID] = op.Mods[0].GC
					}
				}
			}
		}
	}
	if mis := observeAll(x, m, parents, false); mis != "" {
		return vt.Failf("C08", "final state after %d SIGKILLs differs from the acknowledged state: %s", kills, mis)
	}
	ev.Case(c, kills >= 2 && adminOK >= 1 && dataWrites >= 3, fmt.Sprintf("inflight-present:%v", present > 0), fmt.Sprintf("inflight-absent:%v", absent > 0))
	return nil
}

func TestC08Kill(t *testing.T) {
	vt.Prop[C08KillCase]{ID: "C08", Test: "TestC08Kill",
		Rule: "real process kill: the cbtemulator binary (built from /repo, no build tag) on a temporary directory, driven over gRPC through 2-5 lives of 2-15 acknowledged admin/data requests each; at the end of every life 0-4 requests (6-cell MutateRows on fresh keys, a family creation) are launched concurrently and the process gets SIGKILL after 0-2 ms; a new process on the same directory must start and serve exactly the acknowledged tables, families, GC rules and rows, each in-flight request wholly present or wholly absent; non-trivial = >=2 kills after >=1 admin change and >=3 data writes",
		Gen:  genC08Kill(), Run: runC08Kill}.Main(t)
}
