package btchecks

import (
	"fmt"
	"sync"
	"testing"

	"pgregory.net/rapid"

	"verif/internal/bt"
	"verif/internal/vt"
)

// C03 — ReadRows returns exactly the requested rows, once, in key order.

// ---------------------------------------------------------------- exhaustive part

var c03U = []bt.BS{"a", "a\x00", "a\x00\x00", "ab", "b", "\x00", "\xff"}
var c03T1 = []bt.BS{"a", "a\x00", "a\x00\x00", "ab", "b", "\x00", "\xff", "a\x00\x00\x00", "aa", "b\x00", "\x00\x00", "\xff\xff", "c"}

type C03Enum struct {
	Engine string     `json:"engine"`
	Index  int64      `json:"index"`
	Rows   *bt.RowSet `json:"rows"`
	Limit  int64      `json:"limit"`
}

func c03Bound(i int) bt.Bound {
	if i == 0 {
		return bt.Bound{}
	}
	i--
	return bt.Bound{K: 1 + i/7, V: c03U[i%7]}
}

func c03Range(i int) bt.Range { return bt.Range{S: c03Bound(i / 15), E: c03Bound(i % 15)} }

const c03Space = 8 + 225*8 + 225*225*8

// c03RowSet decodes an index of the enumeration into a RowSet (nil = absent).
func c03RowSet(i int64) *bt.RowSet {
	key := func(k int64, rs *bt.RowSet) *bt.RowSet {
		if k > 0 {
			rs.Keys = []bt.BS{c03U[k-1]}
		}
		return rs
	}
	switch {
	case i < 8:
		if i == 0 {
			return nil
		}
		return key(i, &bt.RowSet{})
	case i < 8+225*8:
		i -= 8
		return key(i%8, &bt.RowSet{Ranges: []bt.Range{c03Range(int(i / 8))}})
	default:
		i -= 8 + 225*8
		k := i % 8
		i /= 8
		return key(k, &bt.RowSet{Ranges: []bt.Range{c03Range(int(i / 225)), c03Range(int(i % 225))}})
	}
}

var c03Srv = struct {
	sync.Mutex
	m map[string]*bt.Srv
}{m: map[string]*bt.Srv{}}

func c03T1Cands() []bt.RowOut {
	mt := &bt.MTable{Rows: map[string]bt.MRow{}}
	for _, k := range c03T1 {
		mt.Rows[string(k)] = bt.MRow{"f": {"q": {1000: "v"}}}
	}
	return mt.Candidates()
}

func c03Server(engine string) (*bt.Srv, *vt.Failure) {
	c03Srv.Lock()
	defer c03Srv.Unlock()
	if s := c03Srv.m[engine]; s != nil {
		return s, nil
	}
	s, err := bt.NewSrv(engine, "")
	if err != nil {
		return nil, vt.Failf("C03", "server start: %v", err)
	}
	if f := mustCreate(s, nil, tbl, []string{"f"}); f != nil {
		return nil, f
	}
	for _, k := range c03T1 {
		r := s.Exec(&bt.Op{K: "MutateRow", Table: tbl, Key: k, Muts: []bt.Mut{{K: "set", Fam: "f", Qual: "q", TS: 1000, Val: "v"}}})
		if !r.OK() {
			return nil, vt.Failf("C03", "setup write failed: %+v", r)
		}
	}
	c03Srv.m[engine] = s
	return s, nil
}

var c03Cands = c03T1Cands()

func runC03Enum(c C03Enum, ev *vt.Ev) *vt.Failure {
	s, f := c03Server(c.Engine)
	if f != nil {
		return f
	}
	op := &bt.Op{K: "ReadRows", Table: tbl, Rows: c.Rows, Limit: c.Limit}
	got := s.Exec(op)
	e := bt.ExpectRead(c03Cands, c.Rows, nil, c.Limit, false, nil)
	if mis := e.Check(got, true); mis != "" {
		return vt.Failf("C03", "ReadRows(%s limit=%d) on %s: %s", fmtRowSet(c.Rows), c.Limit, c.Engine, mis)
	}
	nontrivial := e.RowSetErr == bt.VErr || (len(e.Rows) > 0 && len(e.Rows) < len(c03Cands))
	lab := "selects-proper-subset"
	if e.RowSetErr == bt.VErr {
		lab = "rejected"
	} else if len(e.Rows) == 0 {
		lab = "selects-nothing"
	} else if len(e.Rows) == len(c03Cands) {
		lab = "selects-all"
	}
	ev.Case(c, nontrivial, lab, "engine="+c.Engine)
	return nil
}

func fmtRowSet(rs *bt.RowSet) string {
	if rs == nil {
		return "<absent>"
	}
	s := ""
	for _, k := range rs.Keys {
		s += fmt.Sprintf("key(%q) ", string(k))
	}
	for _, r := range rs.Ranges {
		b := func(x bt.Bound, open, closed string) string {
			switch x.K {
			case 1:
				return fmt.Sprintf("%s%q", open, string(x.V))
			case 2:
				return fmt.Sprintf("%s%q", closed, string(x.V))
			}
			return "unset"
		}
		s += fmt.Sprintf("range(%s .. %s) ", b(r.S, "open:", "closed:"), b(r.E, "open:", "closed:"))
	}
	return s
}

func TestC03Enum(t *testing.T) {
	p := vt.Prop[C03Enum]{ID: "C03", Test: "TestC03Enum",
		Rule: "enumeration of every RowSet with <=2 ranges + <=1 key, bounds unset/open/closed over the universe {a, a\\x00, a\\x00\\x00, ab, b, \\x00, \\xff} (406 808 RowSets) on a 13-row table, each on 3 engines, a 2% sample also with rows_limit 1/2/5; thorough = whole space (exhaustive), quick = the residue class index mod 16 == VERIF_SEED mod 16; expected rows from the set-union definition; non-trivial = RowSet rejected or selecting a proper non-empty subset; distinct by (engine,index,limit)",
		Run:  runC03Enum}
	if vt.Replay() != "" {
		p.Gen = rapid.Just(C03Enum{})
		p.Main(t)
		return
	}
	ev := vt.NewEv(p.ID, p.Test, p.Rule)
	defer ev.Flush()
	stride, offset := int64(16), vt.Seed()%16
	if vt.Thorough() {
		stride, offset = 1, 0
		ev.Exhaustive(c03Space * 3)
	}
	total := (c03Space - offset + stride - 1) / stride
	for j := int64(vt.Shard()); j < total; j += int64(vt.NShards()) {
		i := j*stride + offset
		rs := c03RowSet(i)
		for _, eng := range bt.Engines {
			limits := []int64{0}
			if i%50 == 7 {
				limits = []int64{0, 1, 2, 5}
			}
			for _, lim := range limits {
				c := C03Enum{Engine: eng, Index: i, Rows: rs, Limit: lim}
				if f := p.Run(c, ev); f != nil {
					vt.WriteFail(p.Test, c, f)
					t.Fatalf("%s", f.Msg)
				}
			}
		}
	}
}

// ---------------------------------------------------------------- random part

type C03Read struct {
	Rows   *bt.RowSet `json:"rows"`
	Limit  int64      `json:"limit"`
	Filter *bt.Filter `json:"filter,omitempty"`
	Sample bool       `json:"sample,omitempty"` // SampleRowKeys instead of a read
}

type C03Case struct {
	Engine string    `json:"engine"`
	Keys   []bt.BS   `json:"keys"`
	Big    int       `json:"big"`   // extra generated keys k00000.. (multi-message results)
	Cells  int       `json:"cells"` // cells per row
	Reads  []C03Read `json:"reads"`
}

func lit(s string) *bt.Rx { return &bt.Rx{K: "lit", Lit: bt.BS(s)} }

var c03Filters = []*bt.Filter{
	nil, nil,
	{K: "block", Flag: true},
	{K: "rowkey", Rx: &bt.Rx{K: "cat", Subs: []bt.Rx{*lit("a"), {K: "star", Subs: []bt.Rx{{K: "anyc"}}}}}},    // a\C*
	{K: "rowkey", Rx: &bt.Rx{K: "cat", Subs: []bt.Rx{{K: "star", Subs: []bt.Rx{{K: "anyc"}}}, *lit("\x00")}}}, // \C*\x00
	{K: "value", Rx: lit("v1")},
	{K: "qual", Rx: lit("q0")},
	{K: "rowoffset", N: 1}, // matches every row but leaves rows with one cell without output
	{K: "rowoffset", N: 2},
	{K: "chain", Subs: []bt.Filter{{K: "rowoffset", N: 1}, {K: "strip", Flag: true}}},
	{K: "rowkey", Rx: &bt.Rx{K: "cat", Subs: []bt.Rx{*lit("k"), {K: "star", Subs: []bt.Rx{{K: "anyc"}}}, {K: "class", Set: "05"}}}}, // k\C*[05]
}

func genBoundOver(keys []bt.BS) *rapid.Generator[bt.Bound] {
	return rapid.Custom(func(t *rapid.T) bt.Bound {
		k := rapid.SampledFrom([]int{0, 1, 2, 1, 2}).Draw(t, "bk")
		if k == 0 {
			return bt.Bound{}
		}
		var v bt.BS
		if len(keys) > 0 && rapid.IntRange(0, 3).Draw(t, "fromkeys") > 0 {
			v = rapid.SampledFrom(keys).Draw(t, "bv")
		} else {
			v = bt.GenKey().Draw(t, "bv")
		}
		return bt.Bound{K: k, V: v}
	})
}

func genC03() *rapid.Generator[C03Case] {
	return rapid.Custom(func(t *rapid.T) C03Case {
		c := C03Case{Engine: rapid.SampledFrom(bt.Engines).Draw(t, "engine")}
		c.Keys = rapid.SliceOfNDistinct(bt.GenKey(), 0, 40, func(b bt.BS) bt.BS { return b }).Draw(t, "keys")
		c.Cells = rapid.IntRange(1, 3).Draw(t, "cells")
		if rapid.IntRange(0, 19).Draw(t, "bigclass") == 0 {
			if rapid.Bool().Draw(t, "wide") {
				c.Big, c.Cells = rapid.IntRange(250, 400).Draw(t, "big"), 5
			} else {
				c.Big, c.Cells = rapid.IntRange(1100, 2500).Draw(t, "big"), 1
			}
		}
		all := append([]bt.BS{}, c.Keys...)
		if c.Big > 0 {
			all = append(all, "k00000", "k00007", bt.BS(fmt.Sprintf("k%05d", c.Big/2)), bt.BS(fmt.Sprintf("k%05d", c.Big-1)), "k", "l")
		}
		read := rapid.Custom(func(t *rapid.T) C03Read {
			var r C03Read
			if rapid.IntRange(0, 11).Draw(t, "sample") == 0 {
				r.Sample = true
				return r
			}
			switch rapid.IntRange(0, 9).Draw(t, "rsclass") {
			case 0:
				r.Rows = nil
			case 1:
				r.Rows = &bt.RowSet{}
			default:
				rs := &bt.RowSet{}
				nk := rapid.IntRange(0, 5).Draw(t, "nk")
				for i := 0; i < nk; i++ {
					if len(all) > 0 && rapid.IntRange(0, 4).Draw(t, "present") > 0 {
						rs.Keys = append(rs.Keys, rapid.SampledFrom(all).Draw(t, "k"))
					} else {
						rs.Keys = append(rs.Keys, bt.GenKey().Draw(t, "k"))
					}
				}
				nr := rapid.IntRange(0, 5).Draw(t, "nr")
				for i := 0; i < nr; i++ {
					rg := bt.Range{S: genBoundOver(all).Draw(t, "s"), E: genBoundOver(all).Draw(t, "e")}
					if rg.S.K != 0 && rg.E.K != 0 && rg.S.V > rg.E.V && rapid.IntRange(0, 9).Draw(t, "keepinv") > 0 {
						rg.S.V, rg.E.V = rg.E.V, rg.S.V
					}
					rs.Ranges = append(rs.Ranges, rg)
				}
				r.Rows = rs
			}
			r.Limit = rapid.SampledFrom([]int64{0, 0, 0, 1, 2, 3, 7, 1000}).Draw(t, "limit")
			r.Filter = rapid.SampledFrom(c03Filters).Draw(t, "filter")
			return r
		})
		c.Reads = rapid.SliceOfN(read, 1, 8).Draw(t, "reads")
		return c
	})
}

func c03Table(c C03Case) *bt.MTable {
	mt := &bt.MTable{Fams: map[string]*bt.GC{"f": nil, "g": nil}, Rows: map[string]bt.MRow{}}
	put := func(i int, k bt.BS) {
		r := bt.MRow{}
		for j := 0; j < 1+i%c.Cells; j++ {
			fam := "f"
			if j == 4 {
				fam = "g"
			}
			v := fmt.Sprintf("v%d", (i+j)%3)
			if r[fam] == nil {
				r[fam] = map[string]map[int64]string{}
			}
			q := fmt.Sprintf("q%d", j%2)
			if r[fam][q] == nil {
				r[fam][q] = map[int64]string{}
			}
			r[fam][q][int64(1000*(j+1))] = v
		}
		mt.Rows[string(k)] = r
	}
	for i, k := range c.Keys {
		put(i, k)
	}
	for i := 0; i < c.Big; i++ {
		put(i, bt.BS(fmt.Sprintf("k%05d", i)))
	}
	return mt
}

func runC03(c C03Case, ev *vt.Ev) *vt.Failure {
	s, err := bt.NewSrv(c.Engine, "")
	if err != nil {
		return vt.Failf("C03", "server start: %v", err)
	}
	defer s.Close()
	if f := mustCreate(s, nil, tbl, []string{"f", "g"}); f != nil {
		f.Property = "C03"
		return f
	}
	mt := c03Table(c)
	// load through MutateRows in batches
	var entries []bt.Entry
	flush := func() *vt.Failure {
		if len(entries) == 0 {
			return nil
		}
		r := s.Exec(&bt.Op{K: "MutateRows", Table: tbl, Entries: entries})
		entries = nil
		if !r.OK() {
			return vt.Failf("C03", "setup MutateRows failed: code %d %s %s", r.Code, r.Msg, r.Panic)
		}
		for _, e := range r.Entries {
			if e.Code != 0 {
				return vt.Failf("C03", "setup entry failed: %+v", e)
			}
		}
		return nil
	}
	for _, k := range mt.Keys() {
		var muts []bt.Mut
		for _, cell := range mt.Rows[k].Cells() {
			muts = append(muts, bt.Mut{K: "set", Fam: cell.Fam, Qual: cell.Qual, TS: cell.TS, Val: cell.Val})
		}
		entries = append(entries, bt.Entry{Key: bt.BS(k), Muts: muts})
		if len(entries) >= 200 {
			if f := flush(); f != nil {
				return f
			}
		}
	}
	if f := flush(); f != nil {
		return f
	}
	cands := mt.Candidates()
	nontrivial := false
	labels := map[string]bool{"engine=" + c.Engine: true}
	for i, rd := range c.Reads {
		if rd.Sample {
			got := s.Exec(&bt.Op{K: "Sample", Table: tbl})
			m := &bt.Model{Tables: map[string]*bt.MTable{(&bt.Op{Table: tbl}).FullName(): mt}}
			if mis := m.Step(&bt.Op{K: "Sample", Table: tbl}, got); mis != "" {
				return vt.Failf("C03", "read %d: %s", i, mis)
			}
			labels["sample-row-keys"] = true
			continue
		}
		op := &bt.Op{K: "ReadRows", Table: tbl, Rows: rd.Rows, Limit: rd.Limit, Filter: rd.Filter}
		got := s.Exec(op)
		e := bt.ExpectRead(cands, rd.Rows, rd.Filter, rd.Limit, true, nil)
		if mis := e.Check(got, true); mis != "" {
			return vt.Failf("C03", "read %d ReadRows(%s limit=%d filter=%v) on %s: %s", i, fmtRowSet(rd.Rows), rd.Limit, rd.Filter != nil, c.Engine, mis)
		}
		if e.RowSetErr == bt.VErr {
			labels["rejected"] = true
			nontrivial = true
		} else if len(e.Rows) > 0 && len(e.Rows) < len(cands) {
			nontrivial = true
			labels["proper-subset"] = true
		}
		if got.Msgs > 1 {
			labels["multi-message-result"] = true
		}
		if rd.Limit > 0 && int64(len(e.Rows)) == rd.Limit {
			labels["limit-cut"] = true
			if rd.Filter != nil {
				labels["limit-cut-with-filter"] = true
			}
		}
		if rd.Rows != nil && len(rd.Rows.Ranges) >= 2 {
			labels["multi-range"] = true
		}
	}
	var ls []string
	for l := range labels {
		ls = append(ls, l)
	}
	ev.Case(c, nontrivial, ls...)
	return nil
}

func TestC03(t *testing.T) {
	vt.Prop[C03Case]{ID: "C03", Test: "TestC03",
		Rule: "rapid-generated tables (0-40 adversarial keys, 5% with 250-2500 extra rows so results span several messages) and 1-8 reads each: RowSets of 0-5 keys + 0-5 ranges (duplicates, overlaps, inverted), limits, row-emptying filters, SampleRowKeys; expected rows from the set-union definition + reference filter evaluator; stream decoder validates chunk well-formedness; non-trivial = a read rejected or selecting a proper non-empty subset",
		Gen:  genC03(), Run: runC03}.Main(t)
}
