package btchecks

import (
	"encoding/json"
	"fmt"
	"strings"
	"testing"

	"pgregory.net/rapid"

	"verif/internal/bt"
	"verif/internal/vt"
)

// C17 — the choice of storage engine is unobservable to clients.

type C17Case struct {
	Steps []bt.Op `json:"steps"`
}

// partialFail: a filter that is invalid only for the row whose key matches.
func partialFail(key bt.BS, kind int) bt.Filter {
	bad := bt.Filter{K: "value", Raw: "["}
	switch kind {
	case 1:
		bad = bt.Filter{K: "pass", Flag: false}
	case 2:
		bad = bt.Filter{K: "chain", Subs: []bt.Filter{{K: "pass", Flag: true}}}
	case 3:
		bad = bt.Filter{K: "tsrange", TS: 1500}
	}
	return bt.Filter{K: "cond", Pred: &bt.Filter{K: "rowkey", Rx: &bt.Rx{K: "lit", Lit: key}}, True: &bad, False: &bt.Filter{K: "pass", Flag: true}}
}

var c17HostileTables = []string{"nul\x00id", strings.Repeat("n", 201), strings.Repeat("m", 200), strings.Repeat("x", 2100), "sub/dir", "..", ".", "", "a b", "ü", "con\\x", "%2F", strings.Repeat("a/", 40) + "z"}

var c17HostileParents = []string{"projects/p/instances/" + strings.Repeat("i", 300), "projects/" + strings.Repeat("p", 201) + "/instances/i", "projects/p/instances/nul\x00x",
	strings.Repeat("q", 1990), "projects/p/instances/..", "x", "projects/p/instances/i/"}

func genC17() *rapid.Generator[C17Case] {
	return rapid.Custom(func(t *rapid.T) C17Case {
		ctx := bt.ProgCtx{Tables: c14Tables[:2], Fams: bt.AllFams, Keys: c14Keys, Quals: c14Quals,
			InvalidPct: rapid.SampledFrom([]int{0, 3}).Draw(t, "invalidPct"), Admin: 2, Reads: 10, Filters: true,
			FilterOpts: bt.FilterOpts{Fams: bt.AllFams, Keys: c14Keys, Quals: c14Quals, Vals: c05Vals, InvalidPct: 5}}
		fams := []bt.FamDef{{Name: "f", GC: &bt.GC{K: "maxv", N: 1}}, {Name: "g", GC: &bt.GC{K: "maxage", Sec: 3600}}, {Name: "h"}}
		first := []bt.Op{{K: "CreateTable", Table: "t", Fams: fams}, {K: "CreateTable", Table: "t2", Fams: fams}}
		step := rapid.Custom(func(t *rapid.T) bt.Op {
			if rapid.IntRange(0, 24).Draw(t, "gc") == 0 {
				// a forced garbage-collection pass (same clock on all three servers)
				return bt.Op{K: "GC", Force: true, Clock: bt.I64(rapid.SampledFrom([]int64{5000, 10_000_000_000}).Draw(t, "gcclock"))}
			}
			if rapid.IntRange(0, 24).Draw(t, "hostilename") == 0 {
				// table ids that matter to an engine that turns them into file names: all engines must agree on them
				id := rapid.SampledFrom(c17HostileTables).Draw(t, "table")
				parent := ""
				if rapid.IntRange(0, 2).Draw(t, "hostileparent") == 0 {
					// the parent is part of the table name (and of the path on disk) as well
					parent = rapid.SampledFrom(c17HostileParents).Draw(t, "parent")
					id = rapid.SampledFrom([]string{"t", id}).Draw(t, "tid")
				}
				switch rapid.IntRange(0, 4).Draw(t, "hk") {
				case 0, 1:
					return bt.Op{K: "CreateTable", Parent: parent, Table: id, Fams: fams}
				case 2:
					return bt.Op{K: "MutateRow", Parent: parent, Table: id, Key: "k", Muts: []bt.Mut{{K: "set", Fam: "f", Qual: "q", TS: 1000, Val: "v"}}}
				case 3:
					return bt.Op{K: "ReadRows", Parent: parent, Table: id}
				default:
					return bt.Op{K: "DeleteTable", Parent: parent, Table: id}
				}
			}
			op := bt.GenOp(ctx).Draw(t, "op")
			if op.K == "ReadRows" && rapid.IntRange(0, 2).Draw(t, "partial") == 0 {
				f := partialFail(rapid.SampledFrom(c14Keys).Draw(t, "failkey"), rapid.IntRange(0, 3).Draw(t, "failkind"))
				op.Filter = &f
			}
			return op
		})
		steps := append(first, rapid.SliceOfN(step, 10, 60).Draw(t, "steps")...)
		if rapid.IntRange(0, 3).Draw(t, "scenario") == 0 {
			sc := bt.GenDropRecreate("t", "", c14Keys).Draw(t, "droprecreate")
			at := rapid.IntRange(2, len(steps)).Draw(t, "at")
			steps = append(append(append([]bt.Op{}, steps[:at]...), sc...), steps[at:]...)
		}
		return C17Case{Steps: steps}
	})
}

func canonResult(r *bt.Result) string {
	cp := *r
	if cp.Panic != "" {
		cp.Panic = "panic" // stacks differ
	}
	b, _ := json.Marshal(cp)
	return string(b)
}

func runC17(c C17Case, ev *vt.Ev) *vt.Failure {
	var srvs []*bt.Srv
	for _, e := range bt.Engines {
		s, err := bt.NewSrv(e, "")
		if err != nil {
			return vt.Failf("C17", "server start (%s): %v", e, err)
		}
		defer s.Close()
		srvs = append(srvs, s)
	}
	labels := map[string]bool{}
	partial, cut, dropBeforeRead, dropped := false, false, false, false
	for i := range c.Steps {
		op := &c.Steps[i]
		var res []*bt.Result
		for _, s := range srvs {
			res = append(res, s.Exec(op))
		}
		for k := 0; k < len(res); k++ {
			if res[k].Panic != "" {
				return fail("C17", i, op, fmt.Sprintf("panic on %s: %s", bt.Engines[k], res[k].Panic))
			}
		}
		for k := 1; k < len(res); k++ {
			if a, b := canonResult(res[0]), canonResult(res[k]); a != b {
				return fail("C17", i, op, fmt.Sprintf("engines disagree:\n  %s: %s\n  %s: %s", bt.Engines[0], clip(a), bt.Engines[k], clip(b)))
			}
		}
		r := res[0]
		labels[fmt.Sprintf("%s:code=%d", op.K, r.Code)] = true
		switch op.K {
		case "DropRowRange", "DeleteTable":
			if r.Code == 0 {
				dropped = true
			}
		case "ReadRows":
			if dropped {
				dropBeforeRead = true
			}
			if r.Code == bt.CodeInvalidArg && op.Filter != nil && op.Filter.K == "cond" {
				// did the scan fail on a proper subset of the rows? (some row would have been fine)
				all := srvs[0].Exec(&bt.Op{K: "ReadRows", Parent: op.Parent, Table: op.Table, Rows: op.Rows})
				if len(all.Rows) > 1 {
					partial = true
					labels["scan-failing-on-some-rows"] = true
				}
			}
			if op.Limit > 0 && int64(len(r.Rows)) == op.Limit {
				cut = true
				labels["limit-cut"] = true
			}
		}
	}
	var ls []string
	for l := range labels {
		ls = append(ls, l)
	}
	ev.Case(c, (partial || cut) && dropBeforeRead, ls...)
	ev.Add("programs", 1)
	ev.Add("disagreements_checked", int64(2*len(c.Steps)))
	return nil
}

func clip(s string) string {
	if len(s) > 600 {
		return s[:600] + "…"
	}
	return s
}

func TestC17(t *testing.T) {
	vt.Prop[C17Case]{ID: "C17", Test: "TestC17",
		Rule: "rapid-generated sequential programs (5-60 requests: admin, writes, RMW, check-and-mutate, reads with RowSets/limits/filter trees, one third of the reads with a filter that is invalid only for one row key) executed on btree, leveldb-mem and leveldb-disk servers with the same clock script; every response (status code+message, rows incl. those streamed before an error, per-entry statuses, predicate_matched, table definitions) must be identical across the three; non-trivial = a scan failing on a proper subset of rows or cut by a limit, and a drop/delete before a read",
		Gen:  genC17(), Run: runC17}.Main(t)
}
