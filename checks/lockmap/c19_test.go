package lockmapchecks

import (
	"context"
	"fmt"
	"os"
	"runtime"
	"sort"
	"strings"
	"sync"
	"sync/atomic"
	"testing"
	"time"

	"github.com/fullstorydev/emulators/storage/gcsutil"
	"pgregory.net/rapid"

	"verif/internal/sched"
	"verif/internal/vt"
)

// C19 — gcsutil lock map: mutual exclusion, cancellation safety, no deadlock, no leak.

func TestMain(m *testing.M) { os.Exit(m.Run()) }

type LMAction struct {
	K   string `json:"k"` // lock | run | runpanic | runerr | badunlock
	Key string `json:"key"`
	Ctx int    `json:"ctx"` // -1 = background context
}

type LMCase struct {
	Name    string       `json:"name,omitempty"`
	Workers [][]LMAction `json:"workers"`
	NCtx    int          `json:"nctx"`
	Cancels []int        `json:"cancels,omitempty"` // contexts cancelled (in this order) by a canceller worker
	Choices []int        `json:"choices,omitempty"` // schedule: option index per decision
}

type lmStats struct {
	steps, preempts      int
	windowInterference   bool // another worker acted on the same key while one was inside Lock/Unlock internals
	cancelWhileQueued    bool
	badUnlocks, panicsOK int
	callbackExits        int // Run callbacks that left by panic or error
}

type lmRun struct {
	lm           *gcsutil.TransientLockMap
	s            *sched.Sched
	inCS         map[string]int
	held         map[string]int // key -> number of callers between "Lock returned true" and "Unlock returned" (gates the erroneous Unlock)
	active       map[int]string // worker -> key it is inside Lock()/holding/Unlock()
	viol         string
	ctxs         []context.Context
	cancels      []context.CancelFunc
	st           lmStats
	lastKeyActor map[string]int
}

func (r *lmRun) fail(f string, a ...interface{}) {
	if r.viol == "" {
		r.viol = fmt.Sprintf(f, a...)
	}
}

func (r *lmRun) ctx(i int) context.Context {
	if i < 0 || i >= len(r.ctxs) {
		return context.Background()
	}
	return r.ctxs[i]
}

func (r *lmRun) critical(w *sched.Worker, key string) {
	r.inCS[key]++
	if r.inCS[key] > 1 {
		r.fail("mutual exclusion broken: %d callers hold key %q (worker %s entered)", r.inCS[key], key, w.Name)
	}
	r.s.Yield("critical-section", nil)
	r.inCS[key]--
}

func (r *lmRun) worker(script []LMAction) func(w *sched.Worker) {
	return func(w *sched.Worker) {
		for _, a := range script {
			ctx := r.ctx(a.Ctx)
			switch a.K {
			case "lock":
				r.active[w.ID] = a.Key
				ok := r.lm.Lock(ctx, a.Key)
				if !ok {
					if ctx.Err() == nil {
						r.fail("Lock(%q) returned false although its context is not done (worker %s)", a.Key, w.Name)
					}
					delete(r.active, w.ID)
					continue
				}
				r.held[a.Key]++
				r.critical(w, a.Key)
				r.lm.Unlock(a.Key)
				r.held[a.Key]--
				delete(r.active, w.ID)
			case "run":
				r.active[w.ID] = a.Key
				ran := false
				err := r.lm.Run(ctx, a.Key, func(context.Context) error {
					ran = true
					r.held[a.Key]++
					r.critical(w, a.Key)
					return nil
				})
				if ran {
					r.held[a.Key]--
				}
				if err != nil && (ran || ctx.Err() == nil) {
					r.fail("Run(%q) returned %v (ran=%v, ctx err=%v)", a.Key, err, ran, ctx.Err())
				}
				if err == nil && !ran {
					r.fail("Run(%q) returned nil without running the callback", a.Key)
				}
				delete(r.active, w.ID)
			case "runpanic", "runerr":
				// the callback leaves by a panic (recovered further up, as net/http does for a handler) or by an
				// error: either way the caller no longer holds the key once Run is over
				r.active[w.ID] = a.Key
				ran, panicked := false, false
				var err error
				func() {
					defer func() {
						if rec := recover(); rec != nil {
							if rec != "c19: callback panic" {
								panic(rec)
							}
							panicked = true
						}
					}()
					err = r.lm.Run(ctx, a.Key, func(context.Context) error {
						ran = true
						r.held[a.Key]++
						r.critical(w, a.Key)
						if a.K == "runpanic" {
							panic("c19: callback panic")
						}
						return fmt.Errorf("c19: callback error")
					})
				}()
				if ran {
					r.held[a.Key]-- // Run is over (its Unlock has run): only now may the erroneous Unlock be offered
				}
				if ran && a.K == "runpanic" && !panicked {
					r.fail("Run(%q): the callback's panic did not propagate", a.Key)
				}
				if ran && a.K == "runerr" && (err == nil || err.Error() != "c19: callback error") {
					r.fail("Run(%q) returned %v, want the callback's error", a.Key, err)
				}
				if !ran && ctx.Err() == nil {
					r.fail("Run(%q) did not run the callback although its context is not done (err %v)", a.Key, err)
				}
				r.st.callbackExits++
				delete(r.active, w.ID)
			case "badunlock":
				// offered only while nobody holds the key
				r.s.Yield("badunlock", func() bool { return r.held[a.Key] == 0 })
				if r.held[a.Key] != 0 {
					continue
				}
				panicked := false
				w.Atomic(func() {
					defer func() {
						if rec := recover(); rec != nil {
							panicked = true
						}
					}()
					r.lm.Unlock(a.Key)
				})
				r.st.badUnlocks++
				if !panicked {
					r.fail("Unlock(%q) of a key that nobody holds did not panic", a.Key)
				} else {
					r.st.panicsOK++
				}
			}
		}
	}
}

func internalPoint(p string) bool {
	return (strings.HasPrefix(p, "lockmap.") && p != "lockmap.Lock.enter" && p != "lockmap.Unlock.enter") || strings.HasPrefix(p, "countedLock.")
}

// runLM executes one schedule of the case.
func runLM(c *LMCase, ch sched.Chooser) (*lmRun, string) {
	r := &lmRun{lm: gcsutil.NewTransientLockMap(), s: sched.New(), inCS: map[string]int{}, held: map[string]int{}, active: map[int]string{}, lastKeyActor: map[string]int{}}
	r.s.DetectBlocking = true
	r.s.ChanWaitIsLock = true
	for i := 0; i < c.NCtx; i++ {
		ctx, cancel := context.WithCancel(context.Background())
		r.ctxs = append(r.ctxs, ctx)
		r.cancels = append(r.cancels, cancel)
	}
	defer func() {
		for _, cf := range r.cancels {
			cf()
		}
	}()
	for i, script := range c.Workers {
		r.s.Go(fmt.Sprintf("w%d", i), r.worker(script))
	}
	if len(c.Cancels) > 0 {
		r.s.Go("canceller", func(w *sched.Worker) {
			for _, ci := range c.Cancels {
				r.s.Yield("cancel", nil)
				if ci >= 0 && ci < len(r.cancels) {
					// is somebody queued on a lock with this context right now?
					for _, ow := range r.s.Workers() {
						if ow != w && (ow.Point() == "lockmap.Lock.acquire" || ow.Point() == "countedLock.Lock.checked") {
							r.st.cancelWhileQueued = true
						}
					}
					r.cancels[ci]()
				}
			}
		})
	}
	gcsutil.VerifYield = r.s.Yield
	defer func() { gcsutil.VerifYield = nil }()
	var prev *sched.Worker
	r.s.OnStep = func(w *sched.Worker) string {
		if r.viol != "" {
			return r.viol
		}
		if w.Panic != nil {
			return fmt.Sprintf("unexpected panic in %s: %v\n%s", w.Name, w.Panic, w.PanicStk)
		}
		// non-triviality: w acted while another worker sits inside the internals of Lock/Unlock on the same key
		if k, ok := r.active[w.ID]; ok {
			for _, ow := range r.s.Workers() {
				if ow != w && !ow.Done() && internalPoint(ow.Point()) && r.active[ow.ID] == k {
					r.st.windowInterference = true
				}
			}
		}
		prev = w
		// the map may only retain entries for keys somebody holds or awaits
		keys := map[string]bool{}
		for _, k := range r.active {
			keys[k] = true
		}
		if n := r.lm.VerifLen(); n > len(keys) {
			return fmt.Sprintf("lock map retains %d entries while only %d distinct keys are held or awaited (%v)", n, len(keys), keys)
		}
		return ""
	}
	_ = prev
	msg, err := r.s.Run(ch)
	r.st.steps, r.st.preempts = r.s.Steps, r.s.Preempts
	if msg != "" {
		return r, msg
	}
	if err != nil {
		if de, ok := err.(*sched.DeadlockError); ok {
			return r, "deadlock / lost wake-up: " + de.Msg
		}
		return r, "HARNESS:" + err.Error()
	}
	if r.viol != "" {
		return r, r.viol
	}
	for _, w := range r.s.Workers() {
		if w.Panic != nil {
			return r, fmt.Sprintf("unexpected panic in %s: %v\n%s", w.Name, w.Panic, w.PanicStk)
		}
	}
	if n := r.lm.VerifLen(); n != 0 {
		return r, fmt.Sprintf("lock map retains %d entries after every caller finished", n)
	}
	return r, ""
}

func runC19(c LMCase, ev *vt.Ev) *vt.Failure {
	cc := c
	r, mis := runLM(&cc, &sched.ListChooser{List: c.Choices, Sticky: true})
	if strings.HasPrefix(mis, "HARNESS:") {
		panic(mis)
	}
	if mis != "" {
		cc.Choices = r.s.Choices
		return &vt.Failure{Property: "C19", Msg: mis}
	}
	ev.Case(c, r.st.windowInterference || r.st.cancelWhileQueued, lmLabels(r)...)
	ev.Add("schedule_steps", int64(r.st.steps))
	return nil
}

func lmLabels(r *lmRun) []string {
	var ls []string
	if r.st.windowInterference {
		ls = append(ls, "interference-inside-lock-internals")
	}
	if r.st.cancelWhileQueued {
		ls = append(ls, "cancel-while-queued")
	}
	if r.st.badUnlocks > 0 {
		ls = append(ls, "erroneous-unlock-panicked")
	}
	if r.st.preempts >= 3 {
		ls = append(ls, "preemptions>=3")
	}
	return ls
}

// ---------------------------------------------------------------- random schedules

func genLMCase() *rapid.Generator[LMCase] {
	return rapid.Custom(func(t *rapid.T) LMCase {
		nw := rapid.IntRange(2, 5).Draw(t, "workers")
		nk := rapid.IntRange(1, 3).Draw(t, "keys")
		keys := []string{"k0", "k1", "k2"}[:nk]
		c := LMCase{NCtx: nw}
		for w := 0; w < nw; w++ {
			var script []LMAction
			for i, n := 0, rapid.IntRange(1, 3).Draw(t, "rounds"); i < n; i++ {
				a := LMAction{K: rapid.SampledFrom([]string{"lock", "lock", "lock", "lock", "run", "badunlock", "runpanic", "runerr"}).Draw(t, "k"), Key: rapid.SampledFrom(keys).Draw(t, "key"), Ctx: -1}
				if rapid.Bool().Draw(t, "cancellable") {
					a.Ctx = w
				}
				script = append(script, a)
			}
			c.Workers = append(c.Workers, script)
		}
		c.Cancels = rapid.SliceOfN(rapid.IntRange(0, nw-1), 0, 3).Draw(t, "cancels")
		c.Choices = rapid.SliceOfN(rapid.IntRange(0, 5), 0, 120).Draw(t, "choices")
		return c
	})
}

func TestC19Random(t *testing.T) {
	vt.Prop[LMCase]{ID: "C19", Test: "TestC19Random",
		Rule: "rapid-generated scripts for 2-5 goroutines x 1-3 keys x 1-3 rounds of Lock/Unlock, Run and erroneous Unlock, 0-3 context cancellations by a separate goroutine, and a rapid-drawn (shrinkable) schedule over the lock map's internal steps (6 yield points per Lock/Unlock pair + critical section); monitors after every step: mutual exclusion, Lock=false only with a done context, no deadlock/lost wake-up (enabledness known from the key channel), entries <= keys held or awaited, no entries at the end, erroneous Unlock panics; non-trivial = another goroutine acted on the same key while one was inside Lock/Unlock internals, or a cancellation delivered while a waiter was queued",
		Gen:  genLMCase(), Run: runC19}.Main(t)
}

// ---------------------------------------------------------------- exhaustive / preemption-bounded

type lmConfig struct {
	c                  LMCase
	maxPreempt         int  // -1 = all schedules
	thorough           bool // only in the thorough tier
	maxPreemptThorough int
}

func lk(key string, ctx int) LMAction { return LMAction{K: "lock", Key: key, Ctx: ctx} }

var lmConfigs = []lmConfig{
	{c: LMCase{Name: "2x1x1", Workers: [][]LMAction{{lk("k0", -1)}, {lk("k0", -1)}}}, maxPreempt: -1, maxPreemptThorough: -1},
	{c: LMCase{Name: "2x1x1+cancel", NCtx: 2, Workers: [][]LMAction{{lk("k0", 0)}, {lk("k0", 1)}}, Cancels: []int{1}}, maxPreempt: -1, maxPreemptThorough: -1},
	{c: LMCase{Name: "run-vs-lock+cancel", NCtx: 1, Workers: [][]LMAction{{{K: "run", Key: "k0", Ctx: -1}}, {lk("k0", 0)}}, Cancels: []int{0}}, maxPreempt: -1, maxPreemptThorough: -1},
	{c: LMCase{Name: "2x1x1+badunlock", Workers: [][]LMAction{{lk("k0", -1)}, {{K: "badunlock", Key: "k0", Ctx: -1}, lk("k0", -1)}}}, maxPreempt: -1, maxPreemptThorough: -1},
	{c: LMCase{Name: "runpanic-vs-lock", Workers: [][]LMAction{{{K: "runpanic", Key: "k0", Ctx: -1}, lk("k0", -1)}, {lk("k0", -1)}}}, maxPreempt: -1, maxPreemptThorough: -1},
	{c: LMCase{Name: "runerr-vs-run+cancel", NCtx: 1, Workers: [][]LMAction{{{K: "runerr", Key: "k0", Ctx: -1}}, {{K: "run", Key: "k0", Ctx: 0}}}, Cancels: []int{0}}, maxPreempt: -1, maxPreemptThorough: -1},
	{c: LMCase{Name: "2x1x2", Workers: [][]LMAction{{lk("k0", -1), lk("k0", -1)}, {lk("k0", -1), lk("k0", -1)}}}, maxPreempt: 4, maxPreemptThorough: 7},
	{c: LMCase{Name: "2x2keys", Workers: [][]LMAction{{lk("k0", -1), lk("k1", -1)}, {lk("k1", -1), lk("k0", -1)}}}, maxPreempt: 4, maxPreemptThorough: 6},
	{c: LMCase{Name: "3x2x2+cancel", NCtx: 3, Workers: [][]LMAction{{lk("k0", 0), lk("k1", -1)}, {lk("k1", 1), lk("k0", -1)}, {{K: "run", Key: "k0", Ctx: -1}, lk("k1", 2)}}, Cancels: []int{0, 2}},
		maxPreempt: 2, maxPreemptThorough: 3},
}

func TestC19Enum(t *testing.T) {
	p := vt.Prop[LMCase]{ID: "C19", Test: "TestC19Enum",
		Rule: "stateless DFS (re-execution) over ALL schedules of 2 goroutines x 1 key x 1 round (plain, with a cancellation, Run vs Lock, with an erroneous Unlock, Run whose callback panics or fails) and preemption-bounded DFS for 2x1x2 rounds, 2 goroutines x 2 keys in opposite order, and 3 goroutines x 2 keys x 2 rounds with two cancellations (bound 2 quick / 3 thorough; larger bounds for the 2-goroutine configurations in thorough); same monitors; distinct = distinct schedule (choice list); non-trivial as in TestC19Random",
		Run:  runC19}
	if vt.Replay() != "" {
		p.Gen = rapid.Just(LMCase{})
		p.Main(t)
		return
	}
	ev := vt.NewEv(p.ID, p.Test, p.Rule)
	defer ev.Flush()
	// work items: (config, first decision); sharded round-robin
	type item struct{ ci, c0 int }
	var items []item
	for ci := range lmConfigs {
		nw := len(lmConfigs[ci].c.Workers)
		if len(lmConfigs[ci].c.Cancels) > 0 {
			nw++
		}
		for c0 := 0; c0 < nw; c0++ {
			items = append(items, item{ci, c0})
		}
	}
	var mine []item
	for i, it := range items {
		if i%vt.NShards() == vt.Shard() {
			mine = append(mine, it)
		}
	}
	budget := int64(vt.Budget(15000)) / int64(len(mine)+1)
	if vt.Thorough() {
		budget = int64(vt.Budget(4000000)) / int64(len(mine)+1)
	}
	allExhausted := true
	for _, it := range mine {
		cfg := lmConfigs[it.ci]
		mp := cfg.maxPreempt
		if vt.Thorough() {
			mp = cfg.maxPreemptThorough
		}
		d := sched.NewDFS(mp)
		d.Fixed = []int{it.c0}
		var n int64
		for d.Next() {
			c := cfg.c
			r, mis := runLM(&c, d)
			if strings.HasPrefix(mis, "HARNESS:") {
				t.Fatalf("%s", mis)
			}
			if d.Invalid {
				break
			}
			n++
			c.Choices = r.s.Choices
			if mis != "" {
				f := &vt.Failure{Property: "C19", Msg: fmt.Sprintf("config %s, schedule #%d of the subtree with first decision %d: %s", cfg.c.Name, n, it.c0, mis)}
				vt.WriteFail(p.Test, c, f)
				t.Fatalf("%s", f.Msg)
			}
			ev.Case(c, r.st.windowInterference || r.st.cancelWhileQueued, append(lmLabels(r), "config="+cfg.c.Name)...)
			ev.Add("schedule_steps", int64(r.st.steps))
			if n >= budget {
				allExhausted = false
				ev.Label("budget-cut:" + cfg.c.Name)
				break
			}
		}
		ev.Add("schedules:"+cfg.c.Name, n)
	}
	if allExhausted {
		ev.Exhaustive(0)
	}
}

// ---------------------------------------------------------------- free-running stress (-race)

type LMStress struct {
	Workers  int   `json:"workers"`
	Keys     int   `json:"keys"`
	Rounds   int   `json:"rounds"`
	CancelAt []int `json:"cancelat"` // per (worker,round) mod len: 0 = no cancel, n>0 = cancel after n Gosched calls
}

func runC19Stress(c LMStress, ev *vt.Ev) *vt.Failure {
	vt.WriteCurrent("TestC19Stress", "C19", c)
	defer vt.ClearCurrent("TestC19Stress")
	lm := gcsutil.NewTransientLockMap()
	inCS := make([]int32, c.Keys)
	var viol atomic.Value
	var falseReturns, cancels int64
	var wg sync.WaitGroup
	var gs vt.GoidSet
	for w := 0; w < c.Workers; w++ {
		w := w
		wg.Add(1)
		go func() {
			defer wg.Done()
			gs.Add()
			defer func() {
				if r := recover(); r != nil {
					viol.Store(fmt.Sprintf("unexpected panic in worker %d: %v", w, r))
				}
			}()
			for i := 0; i < c.Rounds; i++ {
				k := (w*7 + i*3) % c.Keys
				key := fmt.Sprintf("k%d", k)
				ctx, cancel := context.WithCancel(context.Background())
				ca := 0
				if len(c.CancelAt) > 0 {
					ca = c.CancelAt[(w*c.Rounds+i)%len(c.CancelAt)]
				}
				if ca > 0 {
					atomic.AddInt64(&cancels, 1)
					go func() {
						for j := 0; j < ca; j++ {
							runtime.Gosched()
						}
						cancel()
					}()
				}
				if lm.Lock(ctx, key) {
					if n := atomic.AddInt32(&inCS[k], 1); n != 1 {
						viol.Store(fmt.Sprintf("mutual exclusion broken on %s: %d holders", key, n))
					}
					runtime.Gosched()
					atomic.AddInt32(&inCS[k], -1)
					lm.Unlock(key)
				} else {
					atomic.AddInt64(&falseReturns, 1)
					if ctx.Err() == nil {
						viol.Store("Lock returned false although its context is not done")
					}
				}
				cancel()
			}
		}()
	}
	done := make(chan struct{})
	go func() { wg.Wait(); close(done) }()
	// every unfinished worker blocked in each of five samples = deadlock / lost wake-up; a worker that is running or
	// runnable (a holder that has not been scheduled yet on a busy machine) = keep waiting
	if mis := vt.Await(done, 20*time.Second, gs.IDs, "lock-map stress"); mis != "" {
		buf := make([]byte, 1<<16)
		n := runtime.Stack(buf, true)
		blocked := strings.Count(string(buf[:n]), "countedLock).Lock")
		return vt.Failf("C19", "deadlock / lost wake-up: %d goroutines still inside Lock although every holder unlocks: %s", blocked, mis)
	}
	if v := viol.Load(); v != nil {
		return vt.Failf("C19", "%s", v.(string))
	}
	if n := lm.VerifLen(); n != 0 {
		return vt.Failf("C19", "lock map retains %d entries after every caller finished", n)
	}
	ev.Case(c, falseReturns > 0 && c.Workers > c.Keys, fmt.Sprintf("lock-returned-false:%v", falseReturns > 0))
	return nil
}

func TestC19Stress(t *testing.T) {
	g := rapid.Custom(func(t *rapid.T) LMStress {
		return LMStress{Workers: rapid.IntRange(2, 8).Draw(t, "workers"), Keys: rapid.IntRange(1, 3).Draw(t, "keys"), Rounds: rapid.IntRange(5, 60).Draw(t, "rounds"),
			CancelAt: rapid.SliceOfN(rapid.SampledFrom([]int{0, 0, 1, 2, 3, 5, 9}), 1, 12).Draw(t, "cancelat")}
	})
	vt.Prop[LMStress]{ID: "C19", Test: "TestC19Stress",
		Rule: "free-running stress under the Go race detector: 2-8 goroutines x 5-60 rounds of Lock/Unlock over 1-3 keys with contexts cancelled after a drawn number of scheduler yields; monitors: at most one holder per key (atomic counter), Lock=false only with a done context, everybody finishes (after 20 s: every unfinished worker blocked in 5 wait-state samples = lost wake-up / deadlock; a runnable worker extends the wait), no entries left; non-trivial = contention (more goroutines than keys) with at least one Lock that returned false",
		Gen:  g, Run: runC19Stress}.Main(t)
}

var _ = sort.Strings
