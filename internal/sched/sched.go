// Package sched is a cooperative, controlled scheduler for real goroutines.
//
// Registered workers run one at a time. A worker stops at every yield point
// and waits for a grant; the next worker is picked by a Chooser (random draws,
// exhaustive DFS by re-execution, a recorded list). Real locks stay real: if a
// granted worker blocks inside the code under test (mutex, channel), that is
// detected from its goroutine wait state and another worker is chosen.
package sched

import (
	"bytes"
	"fmt"
	"regexp"
	"runtime"
	"strconv"
	"strings"
	"sync"
	"time"
)

// Chooser picks one of n enabled workers. cont is the index (within the
// options) of the worker that ran last, or -1 if it is not among them.
type Chooser interface {
	Choose(n int, cont int) int
}

type Worker struct {
	ID   int
	Name string

	fn       func(w *Worker)
	resume   chan struct{}
	point    string      // where it is parked
	enabled  func() bool // nil = always
	parked   bool
	done     bool // set by the scheduler when it receives the worker's last event
	exited   bool // set by the worker goroutine just before that event
	blocked  bool // granted, but stuck in a real lock/channel wait
	running  bool
	Panic    interface{}
	PanicStk string
	goid     int64
	atomic   bool
	s        *Sched
	Steps    int
}

func (w *Worker) Point() string { return w.point }
func (w *Worker) Done() bool    { return w.done }

// Atomic runs f without stopping at yield points.
func (w *Worker) Atomic(f func()) {
	w.atomic = true
	defer func() { w.atomic = false }()
	f()
}

type Sched struct {
	workers []*Worker
	byGoid  sync.Map
	ev      chan *Worker
	Steps   int
	// OnStep runs on the scheduler goroutine after every step (worker parked
	// again, finished or found blocked). A non-empty string aborts the run.
	OnStep func(w *Worker) string
	// DetectBlocking enables wait-state sampling (needed when workers can block on real locks).
	DetectBlocking bool
	// ChanWaitIsLock: the code under test uses channels as locks (the lock map), so a persistent
	// channel / select wait counts as a lock wait for deadlock detection.
	ChanWaitIsLock bool
	// Trace of granted (worker, point) pairs.
	Trace     []string
	KeepTrace bool
	Choices   []int // option index chosen at every decision (replayable with ListChooser)
	Widths    []int
	Preempts  int // number of times a still-enabled worker was switched away from
	Blocked   int // number of times a granted worker was found blocked
	aborted   bool
}

func New() *Sched { return &Sched{ev: make(chan *Worker, 64)} }

func (s *Sched) Workers() []*Worker { return s.workers }

// Go registers a worker.
func (s *Sched) Go(name string, fn func(w *Worker)) *Worker {
	w := &Worker{ID: len(s.workers), Name: name, fn: fn, resume: make(chan struct{}, 1), s: s}
	s.workers = append(s.workers, w)
	return w
}

func goid() int64 {
	var buf [64]byte
	n := runtime.Stack(buf[:], false)
	// "goroutine 123 ["
	f := bytes.Fields(buf[:n])
	if len(f) < 2 {
		return -1
	}
	id, _ := strconv.ParseInt(string(f[1]), 10, 64)
	return id
}

// Yield is called from instrumented code. Goroutines that are not workers of
// this scheduler pass straight through.
func (s *Sched) Yield(point string, enabled func() bool) {
	v, ok := s.byGoid.Load(goid())
	if !ok {
		return
	}
	w := v.(*Worker)
	if w.atomic || s.aborted {
		return
	}
	w.point, w.enabled = point, enabled
	s.ev <- w
	<-w.resume
}

// Self returns the worker running on the current goroutine (nil if none).
func (s *Sched) Self() *Worker {
	if v, ok := s.byGoid.Load(goid()); ok {
		return v.(*Worker)
	}
	return nil
}

type DeadlockError struct{ Msg string }

func (d *DeadlockError) Error() string { return d.Msg }

var gstate = regexp.MustCompile(`(?m)^goroutine (\d+) \[([^\]]+)\]`)

// waitStates returns goroutine id -> wait state.
func waitStates() map[int64]string {
	buf := make([]byte, 1<<16)
	for {
		n := runtime.Stack(buf, true)
		if n < len(buf) {
			buf = buf[:n]
			break
		}
		buf = make([]byte, 2*len(buf))
	}
	out := map[int64]string{}
	for _, m := range gstate.FindAllSubmatch(buf, -1) {
		id, _ := strconv.ParseInt(string(m[1]), 10, 64)
		st := string(m[2])
		if i := strings.Index(st, ","); i >= 0 {
			st = st[:i]
		}
		out[id] = st
	}
	return out
}

// isLockWait: waiting for a mutex (not a channel / select, which the storage engine uses internally).
func isLockWait(st string) bool {
	switch st {
	case "sync.Mutex.Lock", "sync.RWMutex.Lock", "sync.RWMutex.RLock", "semacquire", "sync.Cond.Wait":
		return true
	}
	return false
}

func isBlockedState(st string) bool {
	switch st {
	case "sync.Mutex.Lock", "sync.RWMutex.Lock", "sync.RWMutex.RLock", "semacquire", "chan receive", "chan send", "select", "sync.Cond.Wait", "sync.WaitGroup.Wait":
		return true
	}
	return false
}

// Run drives the workers to completion. It returns "" or the first OnStep
// complaint; a deadlock is reported as *DeadlockError.
func (s *Sched) Run(ch Chooser) (string, error) {
	for _, w := range s.workers {
		w := w
		started := make(chan struct{})
		go func() {
			w.goid = goid()
			s.byGoid.Store(w.goid, w)
			close(started)
			defer func() {
				if r := recover(); r != nil {
					w.Panic = r
					buf := make([]byte, 8192)
					w.PanicStk = string(buf[:runtime.Stack(buf, false)])
				}
				// the scheduler learns of the exit through the event only: if it read a flag written here, a worker
				// finishing between two of its checks could look like "nobody can run, nobody is blocked"
				w.exited = true
				s.ev <- w
			}()
			// initial park
			w.point = "start"
			s.ev <- w
			<-w.resume
			w.fn(w)
		}()
		<-started
		got := <-s.ev
		got.parked = true
	}
	defer func() {
		// release everything still parked so goroutines can finish
		s.aborted = true
		for _, w := range s.workers {
			if !w.done {
				select {
				case w.resume <- struct{}{}:
				default:
				}
			}
		}
	}()
	var last *Worker
	for {
		var opts []*Worker
		allDone := true
		for _, w := range s.workers {
			if w.done {
				continue
			}
			allDone = false
			if w.parked && (w.enabled == nil || w.enabled()) {
				opts = append(opts, w)
			}
		}
		if allDone {
			return "", nil
		}
		if len(opts) == 0 {
			// nobody can be granted: either real-blocked workers will wake up, or it is a deadlock
			anyBlocked := false
			for _, w := range s.workers {
				if !w.done && w.blocked {
					anyBlocked = true
				}
			}
			if anyBlocked {
				// A worker flagged as blocked may simply be slow (loaded machine, a wait inside the storage
				// engine). Only a lock wait that persists over several samples is a deadlock; anything else
				// that lasts too long is a harness problem (exit 2), never a finding.
				progressed := false
				lockWaits := 0
				for slice := 0; slice < 30 && !progressed; slice++ {
					select {
					case w := <-s.ev:
						s.arrived(w)
						if msg := s.step(w); msg != "" {
							return msg, nil
						}
						progressed = true
					case <-time.After(1 * time.Second):
						states := waitStates()
						all := true
						for _, w := range s.workers {
							if !w.done && !(isLockWait(states[w.goid]) || (s.ChanWaitIsLock && isBlockedState(states[w.goid]))) {
								all = false
							}
						}
						if all {
							lockWaits++
						} else {
							lockWaits = 0
						}
					}
					if lockWaits >= 5 {
						break
					}
				}
				if progressed {
					continue
				}
				if lockWaits < 5 {
					return "", fmt.Errorf("workers neither yield nor sit in a lock wait for 30s")
				}
			}
			var sb strings.Builder
			states := waitStates()
			for _, w := range s.workers {
				if !w.done {
					fmt.Fprintf(&sb, " %s@%s(blocked=%v, state=%s)", w.Name, w.point, w.blocked, states[w.goid])
				}
			}
			return "", &DeadlockError{Msg: "no worker can make progress:" + sb.String()}
		}
		cont := -1
		for i, w := range opts {
			if w == last {
				cont = i
			}
		}
		idx := ch.Choose(len(opts), cont)
		if idx < 0 || idx >= len(opts) {
			idx = 0
		}
		w := opts[idx]
		s.Choices = append(s.Choices, idx)
		s.Widths = append(s.Widths, len(opts))
		if cont >= 0 && idx != cont {
			s.Preempts++
		}
		last = w
		if s.KeepTrace {
			s.Trace = append(s.Trace, w.Name+"@"+w.point)
		}
		w.parked = false
		w.running = true
		w.resume <- struct{}{}
		// wait for w to park / finish / block
		if msg, err := s.await(w); msg != "" || err != nil {
			return msg, err
		}
	}
}

func (s *Sched) arrived(w *Worker) {
	w.running = false
	w.blocked = false
	if w.exited {
		w.done = true
		w.point = "done"
	}
	if !w.done {
		w.parked = true
	}
	w.Steps++
}

func (s *Sched) step(w *Worker) string {
	s.Steps++
	if s.OnStep != nil {
		return s.OnStep(w)
	}
	return ""
}

func (s *Sched) await(w *Worker) (string, error) {
	if !s.DetectBlocking {
		for {
			got := <-s.ev
			s.arrived(got)
			if msg := s.step(got); msg != "" {
				return msg, nil
			}
			if got == w {
				return "", nil
			}
		}
	}
	blockedSamples := 0
	wait := 50 * time.Microsecond
	deadline := time.Now().Add(20 * time.Second)
	for {
		select {
		case got := <-s.ev:
			s.arrived(got)
			if msg := s.step(got); msg != "" {
				return msg, nil
			}
			if got == w {
				return "", nil
			}
		case <-time.After(wait):
			st := waitStates()[w.goid]
			if isBlockedState(st) {
				blockedSamples++
				if blockedSamples >= 2 {
					w.blocked = true
					s.Blocked++
					if msg := s.step(w); msg != "" {
						return msg, nil
					}
					return "", nil
				}
			} else {
				blockedSamples = 0
			}
			if wait < 2*time.Millisecond {
				wait *= 2
			}
			if time.Now().After(deadline) {
				return "", fmt.Errorf("worker %s neither yields nor blocks (state %q) for 20s at %s", w.Name, st, w.point)
			}
		}
	}
}

// ---------------------------------------------------------------- choosers

// ListChooser replays a recorded list (index modulo n); beyond its end it picks 0
// (or continues the running worker when Sticky).
type ListChooser struct {
	List   []int
	pos    int
	Sticky bool
	Used   []int // the choices actually made (normalised)
}

func (l *ListChooser) Choose(n, cont int) int {
	c := 0
	if l.pos < len(l.List) {
		c = l.List[l.pos] % n
		if c < 0 {
			c = -c
		}
	} else if l.Sticky && cont >= 0 {
		c = cont
	}
	l.pos++
	l.Used = append(l.Used, c)
	return c
}

// DFS enumerates all schedules (optionally with a preemption bound) by
// re-execution. Use: for d.Next() { run with d }.
type DFS struct {
	Fixed      []int // pinned leading choices (for sharding a search by its first decisions)
	Invalid    bool  // the pinned prefix does not exist in this run (choice >= width)
	MaxPreempt int   // <0: unbounded
	prefix     []int
	widths     []int
	pos        int
	preempts   int
	first      bool
	done       bool
	Count      int64
}

func NewDFS(maxPreempt int) *DFS { return &DFS{MaxPreempt: maxPreempt, first: true} }

// Next prepares the next schedule; false when the space is exhausted.
func (d *DFS) Next() bool {
	if d.done {
		return false
	}
	if d.first {
		d.first = false
	} else {
		// advance: last position with room to increment (the previous run may have made
		// fewer decisions than the prefix holds when the code under test is not deterministic)
		if len(d.prefix) > d.pos {
			d.prefix = d.prefix[:d.pos]
		}
		i := len(d.prefix) - 1
		for i >= len(d.Fixed) && d.prefix[i]+1 >= d.widths[i] {
			i--
		}
		if i < len(d.Fixed) {
			d.done = true
			return false
		}
		d.prefix = append(d.prefix[:i:i], d.prefix[i]+1)
	}
	d.widths = d.widths[:0]
	d.pos = 0
	d.preempts = 0
	d.Count++
	return true
}

// Choose: options are re-ordered so that index 0 = "continue the running worker"
// when it is enabled; with the preemption budget used up only that option exists.
func (d *DFS) Choose(n, cont int) int {
	width := n
	if cont >= 0 && d.MaxPreempt >= 0 && d.preempts >= d.MaxPreempt {
		width = 1
	}
	c := 0
	if d.pos < len(d.prefix) {
		c = d.prefix[d.pos]
	} else if d.pos < len(d.Fixed) {
		c = d.Fixed[d.pos]
		d.prefix = append(d.prefix, c)
		if c >= width {
			d.Invalid = true
		}
	} else {
		d.prefix = append(d.prefix, 0)
	}
	if len(d.widths) <= d.pos {
		d.widths = append(d.widths, width)
	} else {
		d.widths[d.pos] = width
	}
	d.pos++
	if c >= width {
		c = 0
	}
	// map c to an option index: 0 -> cont (if any), others in order
	if cont < 0 {
		return c
	}
	if c == 0 {
		return cont
	}
	d.preempts++
	idx := c - 1
	if idx >= cont {
		idx++
	}
	return idx
}

// Schedule returns the choices of the current run (for replay with ListChooser
// semantic they are DFS-internal; use Snapshot for reporting only).
func (d *DFS) Snapshot() []int { return append([]int{}, d.prefix[:d.pos]...) }
