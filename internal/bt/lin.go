package bt

import (
	"encoding/json"
	"fmt"
	"sort"
	"strings"
	"time"

	"github.com/anishathalye/porcupine"
)

// Linearizability model of one row: state = canonical encoding of the row.

type LinIn struct {
	Op    *Op // MutateRow | MutateRowsEntry | CheckAndMutate | RMW | ReadRow
	Entry int // index of the MutateRows entry
	Fams  map[string]*GC
	Clock int64
}

type LinOut struct {
	Res *Result
}

func encRow(r MRow) string {
	cells := r.Cells()
	b, _ := json.Marshal(cells)
	return string(b)
}

func decRow(s string) MRow {
	var cells []Cell
	_ = json.Unmarshal([]byte(s), &cells)
	r := MRow{}
	for _, c := range cells {
		r.set(c.Fam, string(c.Qual), c.TS, string(c.Val))
	}
	return r
}

func linKey(in LinIn) string {
	if in.Op.K == "MutateRowsEntry" {
		return string(in.Op.Entries[in.Entry].Key)
	}
	return string(in.Op.Key)
}

// RowLinModel: sequential specification of single-row operations.
var RowLinModel = porcupine.Model{
	Partition: func(history []porcupine.Operation) [][]porcupine.Operation {
		by := map[string][]porcupine.Operation{}
		for _, o := range history {
			k := linKey(o.Input.(LinIn))
			by[k] = append(by[k], o)
		}
		var keys []string
		for k := range by {
			keys = append(keys, k)
		}
		sort.Strings(keys)
		var out [][]porcupine.Operation
		for _, k := range keys {
			out = append(out, by[k])
		}
		return out
	},
	Init: func() interface{} { return encRow(MRow{}) },
	Step: func(state, input, output interface{}) (bool, interface{}) {
		in := input.(LinIn)
		got := output.(LinOut).Res
		row := decRow(state.(string))
		if got.Panic != "" {
			return false, state
		}
		switch in.Op.K {
		case "MutateRow":
			nr, v := ApplyMuts(in.Fams, row, in.Op.Muts, in.Clock)
			if v == VErr {
				return got.Code != 0, state
			}
			if got.Code != 0 {
				return v == VEither, state
			}
			return true, encRow(nr)
		case "MutateRowsEntry":
			e := in.Op.Entries[in.Entry]
			var code int32 = -1
			for _, es := range got.Entries {
				if es.Index == int64(in.Entry) {
					code = es.Code
				}
			}
			if got.Code != 0 || code == -1 {
				return false, state
			}
			nr, v := ApplyMuts(in.Fams, row, e.Muts, in.Clock)
			if v == VErr {
				return code != 0, state
			}
			if code != 0 {
				return v == VEither, state
			}
			return true, encRow(nr)
		case "CheckAndMutate":
			matched := !row.Empty()
			if in.Op.Pred != nil {
				er := evalFilterAmb(in.Op.Pred, in.Op.Key, row.Cells(), nil, true)
				if er.Unspec || er.Status != EvOK {
					return false, state
				}
				matched = len(er.Cells) > 0
			}
			muts := in.Op.FMuts
			if matched {
				muts = in.Op.TMuts
			}
			nr, v := ApplyMuts(in.Fams, row, muts, in.Clock)
			if v == VErr {
				return got.Code != 0, state
			}
			if got.Code != 0 {
				return false, state
			}
			if got.Matched != matched {
				return false, state
			}
			return true, encRow(nr)
		case "RMW":
			nr, resp, v := ApplyRMW(in.Fams, row, in.Op.Rules, in.Clock)
			if v == VErr {
				return got.Code != 0, state
			}
			if got.Code != 0 {
				return false, state
			}
			if len(got.Rows) != 1 || SameCells(got.Rows[0].Cells, resp) != "" {
				return false, state
			}
			return true, encRow(nr)
		case "ReadRow":
			if got.Code != 0 || got.StreamErr != "" {
				return false, state
			}
			var gotCells []Cell
			if len(got.Rows) > 1 {
				return false, state
			}
			if len(got.Rows) == 1 {
				if CheckShape(got.Rows[0], true) != "" {
					return false, state
				}
				gotCells = got.Rows[0].Cells
			}
			return SameCells(gotCells, row.Cells()) == "", state
		}
		return false, state
	},
	Equal: func(a, b interface{}) bool { return a.(string) == b.(string) },
	DescribeOperation: func(input, output interface{}) string {
		in := input.(LinIn)
		got := output.(LinOut).Res
		b, _ := json.Marshal(in.Op)
		s := string(b)
		if len(s) > 300 {
			s = s[:300] + "…"
		}
		o := fmt.Sprintf("code=%d matched=%v entries=%v", got.Code, got.Matched, got.Entries)
		for _, r := range got.Rows {
			o += " row=" + fmtCells(r.Cells)
		}
		return fmt.Sprintf("%s[%d] -> %s", s, in.Entry, o)
	},
}

// HistOp: one completed operation with logical call/return stamps.
type HistOp struct {
	Client int
	Op     *Op
	Res    *Result
	Call   int64
	Return int64
}

// CheckLinearizable returns "" or a description of the non-linearizable history.
func CheckLinearizable(hist []HistOp, fams map[string]*GC, clock int64) string {
	var ops []porcupine.Operation
	for _, h := range hist {
		if h.Op.K == "MutateRows" {
			for i := range h.Op.Entries {
				op := *h.Op
				op.K = "MutateRowsEntry"
				ops = append(ops, porcupine.Operation{ClientId: h.Client, Input: LinIn{Op: &op, Entry: i, Fams: fams, Clock: clock}, Call: h.Call, Output: LinOut{h.Res}, Return: h.Return})
			}
			continue
		}
		ops = append(ops, porcupine.Operation{ClientId: h.Client, Input: LinIn{Op: h.Op, Fams: fams, Clock: clock}, Call: h.Call, Output: LinOut{h.Res}, Return: h.Return})
	}
	res := porcupine.CheckOperationsTimeout(RowLinModel, ops, 20*time.Second)
	if res == porcupine.Ok || res == porcupine.Unknown {
		return ""
	}
	var sb strings.Builder
	sb.WriteString("history is not linearizable per row:\n")
	sort.Slice(hist, func(i, j int) bool { return hist[i].Call < hist[j].Call })
	for _, h := range hist {
		fmt.Fprintf(&sb, "  client %d [%d,%d] %s\n", h.Client, h.Call, h.Return, RowLinModel.DescribeOperation(LinIn{Op: h.Op}, LinOut{h.Res}))
	}
	return sb.String()
}
