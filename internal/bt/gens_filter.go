package bt

import (
	"math"
	"unicode/utf8"

	"pgregory.net/rapid"
)

// ---------------------------------------------------------------- regex generators

var rxAlphabet = []byte{'a', 'b', 'q', 'v', 'r', '1', '2', 0x00, 0xff, '\n', 'x', 'y', 0xc3, 0xa9, '.', '*'}

var BadPatterns = []BS{"[", "(", "a**", "*", "a{2,1}", "\\", "[z-a]", "(?P<n", ")", "a{1001}"}

func genRxAtomFor(c byte) *rapid.Generator[Rx] {
	return rapid.Custom(func(t *rapid.T) Rx {
		switch rapid.IntRange(0, 9).Draw(t, "atom") {
		case 0:
			return Rx{K: "dot"}
		case 1:
			return Rx{K: "anyc"}
		case 2:
			if (c >= 'a' && c <= 'z') || (c >= '0' && c <= '9') {
				return Rx{K: "class", Set: BS([]byte{c, 'z'})}
			}
			return Rx{K: "class", Neg: true, Set: "az"}
		case 3:
			return Rx{K: "opt", Subs: []Rx{{K: "lit", Lit: BS([]byte{c})}}}
		case 4:
			return Rx{K: "alt", Subs: []Rx{{K: "lit", Lit: BS([]byte{c})}, {K: "lit", Lit: "zz"}}}
		default:
			return Rx{K: "lit", Lit: BS([]byte{c})}
		}
	})
}

// GenRxFor builds a pattern that is derived from target (so that it matches
// reasonably often) with random loosening / tightening.
func GenRxFor(target BS) *rapid.Generator[Rx] {
	return rapid.Custom(func(t *rapid.T) Rx {
		r := Rx{K: "cat"}
		n := len(target)
		if n > 0 && rapid.IntRange(0, 4).Draw(t, "cut") == 0 {
			n = rapid.IntRange(0, n-1).Draw(t, "n")
		}
		for i := 0; i < n; i++ {
			r.Subs = append(r.Subs, genRxAtomFor(target[i]).Draw(t, "a"))
		}
		switch rapid.IntRange(0, 5).Draw(t, "tail") {
		case 0:
			r.Subs = append(r.Subs, Rx{K: "star", Subs: []Rx{{K: "anyc"}}})
		case 1:
			r.Subs = append(r.Subs, Rx{K: "star", Subs: []Rx{{K: "dot"}}})
		case 2:
			r.Subs = append(r.Subs, Rx{K: "rep", Min: 0, Max: 2, Subs: []Rx{{K: "anyc"}}})
		case 3:
			r.Subs = append([]Rx{{K: "star", Subs: []Rx{{K: "anyc"}}}}, r.Subs...)
		}
		return r
	})
}

func genRxRandom(depth int) *rapid.Generator[Rx] {
	return rapid.Custom(func(t *rapid.T) Rx {
		k := rapid.IntRange(0, 11).Draw(t, "rxk")
		if depth <= 0 && k > 4 {
			k = k % 5
		}
		switch k {
		case 0, 1:
			n := rapid.IntRange(1, 2).Draw(t, "n")
			b := make([]byte, n)
			for i := range b {
				b[i] = rapid.SampledFrom(rxAlphabet).Draw(t, "c")
			}
			return Rx{K: "lit", Lit: BS(b)}
		case 2:
			return Rx{K: "dot"}
		case 3:
			return Rx{K: "anyc"}
		case 4:
			return Rx{K: "class", Neg: rapid.Bool().Draw(t, "neg"), Set: rapid.SampledFrom([]BS{"a", "ab", "qv1", "r12", "xy"}).Draw(t, "set")}
		case 5, 6:
			return Rx{K: "cat", Subs: rapid.SliceOfN(genRxRandom(depth-1), 1, 3).Draw(t, "subs")}
		case 7:
			return Rx{K: "alt", Subs: rapid.SliceOfN(genRxRandom(depth-1), 2, 3).Draw(t, "subs")}
		case 8:
			return Rx{K: "star", Subs: []Rx{genRxRandom(depth-1).Draw(t, "sub")}}
		case 9:
			return Rx{K: "plus", Subs: []Rx{genRxRandom(depth-1).Draw(t, "sub")}}
		case 10:
			return Rx{K: "opt", Subs: []Rx{genRxRandom(depth-1).Draw(t, "sub")}}
		default:
			mn := rapid.IntRange(0, 2).Draw(t, "min")
			return Rx{K: "rep", Min: mn, Max: mn + rapid.IntRange(0, 1).Draw(t, "more"), Subs: []Rx{genRxRandom(depth-1).Draw(t, "sub")}}
		}
	})
}

// rxOK: an empty-width operand under a quantifier is not generated (RE2 accepts
// it, but the point is the filter, not RE2 corner syntax).
func rxNullable(r *Rx) bool {
	switch r.K {
	case "lit":
		return len(r.Lit) == 0
	case "dot", "anyc", "class":
		return false
	case "cat":
		for i := range r.Subs {
			if !rxNullable(&r.Subs[i]) {
				return false
			}
		}
		return true
	case "alt":
		for i := range r.Subs {
			if rxNullable(&r.Subs[i]) {
				return true
			}
		}
		return false
	case "star", "opt":
		return true
	case "plus":
		return rxNullable(&r.Subs[0])
	case "rep":
		return r.Min == 0 || rxNullable(&r.Subs[0])
	}
	return true
}

func rxBadNesting(r *Rx) bool {
	switch r.K {
	case "star", "plus", "opt", "rep":
		if rxNullable(&r.Subs[0]) {
			return true
		}
	}
	for i := range r.Subs {
		if rxBadNesting(&r.Subs[i]) {
			return true
		}
	}
	return false
}

// GenRx: pattern for a field whose interesting values are in pool.
func GenRx(pool []BS) *rapid.Generator[Rx] {
	return rapid.Custom(func(t *rapid.T) Rx {
		if len(pool) > 0 && rapid.IntRange(0, 2).Draw(t, "derived") > 0 {
			return GenRxFor(rapid.SampledFrom(pool).Draw(t, "target")).Draw(t, "rx")
		}
		return genRxRandom(2).Filter(func(r Rx) bool { return !rxBadNesting(&r) }).Draw(t, "rx")
	})
}

// ---------------------------------------------------------------- filter generators

type FilterOpts struct {
	Fams       []string
	Keys       []BS
	Quals      []BS
	Vals       []BS
	InvalidPct int  // chance (per node) of an argument the API rejects
	Sample     bool // allow row_sample nodes
	MaxSample  int
}

func genBound(pool []BS) *rapid.Generator[Bound] {
	return rapid.Custom(func(t *rapid.T) Bound {
		k := rapid.IntRange(0, 2).Draw(t, "bk")
		if k == 0 {
			return Bound{}
		}
		return Bound{K: k, V: rapid.SampledFrom(pool).Draw(t, "bv")}
	})
}

var famStrs = func(fs []string) []BS {
	out := make([]BS, len(fs))
	for i, f := range fs {
		out[i] = BS(f)
	}
	return out
}

func genLeaf(o FilterOpts) *rapid.Generator[Filter] {
	return rapid.Custom(func(t *rapid.T) Filter {
		inv := rapid.IntRange(0, 99).Draw(t, "inv") < o.InvalidPct
		kinds := []string{"pass", "block", "rowkey", "family", "qual", "value", "colrange", "valrange", "tsrange", "rowlimit", "rowoffset", "collimit", "strip", "label"}
		if o.Sample {
			kinds = append(kinds, "sample")
		}
		k := rapid.SampledFrom(kinds).Draw(t, "leaf")
		f := Filter{K: k}
		switch k {
		case "pass", "block":
			f.Flag = !inv
		case "rowkey", "family", "qual", "value":
			if inv {
				f.Raw = rapid.SampledFrom(BadPatterns).Draw(t, "bad")
				break
			}
			pool := o.Keys
			switch k {
			case "family":
				pool = famStrs(o.Fams)
			case "qual":
				pool = o.Quals
			case "value":
				pool = o.Vals
			}
			rx := GenRx(pool).Draw(t, "rx")
			if k == "family" {
				// family_name_regex_filter is a proto string: only valid UTF-8 can reach the server
				rx = GenRx(pool).Filter(func(r Rx) bool { return utf8.ValidString(r.Render()) }).Draw(t, "rxascii")
			}
			f.Rx = &rx
		case "colrange":
			f.Fam = GenFam(o.Fams, 10).Draw(t, "fam")
			f.S = genBound(o.Quals).Draw(t, "s")
			f.E = genBound(o.Quals).Draw(t, "e")
		case "valrange":
			f.S = genBound(o.Vals).Draw(t, "s")
			f.E = genBound(o.Vals).Draw(t, "e")
		case "tsrange":
			pool := []int64{0, 1000, 2000, 3000, 4000}
			if inv {
				pool = []int64{1, 1500, 2999}
			}
			f.TS = rapid.SampledFrom(pool).Draw(t, "ts")
			f.TE = rapid.SampledFrom([]int64{0, 1000, 2000, 3000, 4000}).Draw(t, "te")
		case "rowlimit", "rowoffset", "collimit":
			if inv {
				f.N = rapid.SampledFrom([]int32{-1, math.MinInt32, -7}).Draw(t, "n")
			} else {
				f.N = rapid.SampledFrom([]int32{1, 1, 2, 2, 3, 7, 0, math.MaxInt32}).Draw(t, "n")
			}
		case "strip":
			f.Flag = true
		case "label":
			f.Label = rapid.SampledFrom([]string{"l1", "lab-2", "x"}).Draw(t, "label")
		case "sample":
			if inv {
				f.P = rapid.SampledFrom([]float64{-0.5, 0, 1, 1.5, math.Inf(1)}).Draw(t, "p")
			} else {
				f.P = rapid.SampledFrom([]float64{0.3, 0.5, 0.99, 0.01}).Draw(t, "p")
			}
		}
		return f
	})
}

// GenFilter draws a filter tree of at most the given depth.
func GenFilter(depth int, o FilterOpts) *rapid.Generator[Filter] {
	return rapid.Custom(func(t *rapid.T) Filter {
		if depth <= 1 || rapid.IntRange(0, 9).Draw(t, "isleaf") < 3 {
			return genLeaf(o).Draw(t, "leaf")
		}
		inv := rapid.IntRange(0, 99).Draw(t, "inv") < o.InvalidPct
		switch rapid.SampledFrom([]string{"chain", "chain", "interleave", "interleave", "cond", "cond"}).Draw(t, "inner") {
		case "chain":
			min := 2
			if inv {
				min = 0
			}
			return Filter{K: "chain", Subs: rapid.SliceOfN(GenFilter(depth-1, o), min, 4).Draw(t, "subs")}
		case "interleave":
			min := 2
			if inv {
				min = 0
			}
			return Filter{K: "interleave", Subs: rapid.SliceOfN(GenFilter(depth-1, o), min, 4).Draw(t, "subs")}
		default:
			f := Filter{K: "cond"}
			p := GenFilter(depth-1, o).Draw(t, "pred")
			f.Pred = &p
			if rapid.IntRange(0, 5).Draw(t, "hastrue") > 0 {
				x := GenFilter(depth-1, o).Draw(t, "true")
				f.True = &x
			}
			if rapid.IntRange(0, 5).Draw(t, "hasfalse") > 0 {
				x := GenFilter(depth-1, o).Draw(t, "false")
				f.False = &x
			}
			return f
		}
	}).Filter(func(f Filter) bool { return CountSampleNodes(&f) <= 2 })
}
