package bt

import (
	"pgregory.net/rapid"
)

// ProgCtx parameterises the program generator shared by C14, C17, C08, C20.
type ProgCtx struct {
	Tables     []string
	Parents    []string // "" = DefaultParent
	Fams       []string // family universe
	Keys       []BS
	Quals      []BS
	InvalidPct int
	Admin      int // weight of admin ops (0-10)
	Reads      int // weight of read ops
	Filters    bool
	FilterOpts FilterOpts
	Sample     bool // SampleRowKeys allowed (global RNG: not for differential checks)
}

var gcPool = []*GC{nil, nil, {K: "maxv", N: 1}, {K: "maxv", N: 2}, {K: "maxage", Sec: 3600},
	{K: "union", Subs: []GC{{K: "maxv", N: 3}, {K: "maxage", Sec: 1}}}}

func genFamDefs(fams []string) *rapid.Generator[[]FamDef] {
	return rapid.Custom(func(t *rapid.T) []FamDef {
		n := rapid.IntRange(0, len(fams)).Draw(t, "nf")
		var out []FamDef
		for _, f := range fams[:n] {
			out = append(out, FamDef{Name: f, GC: rapid.SampledFrom(gcPool).Draw(t, "gc")})
		}
		return out
	})
}

var prefixPool = []BS{"a", "a\x00", "a\xff", "\xff", "b", "ab", "zz", "\x00", "a\x00\x00", "b\x00"}

// GenRowSet: small RowSets over the given keys.
func GenRowSet(keys []BS) *rapid.Generator[*RowSet] {
	return rapid.Custom(func(t *rapid.T) *RowSet {
		switch rapid.IntRange(0, 5).Draw(t, "rs") {
		case 0:
			return nil
		case 1:
			return &RowSet{}
		}
		rs := &RowSet{}
		for i, n := 0, rapid.IntRange(0, 3).Draw(t, "nk"); i < n; i++ {
			rs.Keys = append(rs.Keys, rapid.SampledFrom(keys).Draw(t, "k"))
		}
		for i, n := 0, rapid.IntRange(0, 2).Draw(t, "nr"); i < n; i++ {
			b := func(l string) Bound {
				k := rapid.IntRange(0, 2).Draw(t, l+"k")
				if k == 0 {
					return Bound{}
				}
				return Bound{K: k, V: rapid.SampledFrom(keys).Draw(t, l+"v")}
			}
			rs.Ranges = append(rs.Ranges, Range{S: b("s"), E: b("e")})
		}
		return rs
	})
}

// GenOp draws one request of a mixed admin/data program.
func GenOp(c ProgCtx) *rapid.Generator[Op] {
	type wk struct {
		k string
		w int
	}
	kinds := []wk{{"MutateRow", 10}, {"MutateRows", 4}, {"RMW", 3}, {"CheckAndMutate", 3},
		{"ReadRows", c.Reads}, {"CreateTable", c.Admin}, {"DeleteTable", c.Admin / 2}, {"GetTable", c.Admin / 2}, {"ListTables", c.Admin / 2},
		{"ModifyCF", c.Admin}, {"DropRowRange", c.Admin}}
	if c.Sample {
		kinds = append(kinds, wk{"Sample", 1})
	}
	var bag []string
	for _, k := range kinds {
		for i := 0; i < k.w; i++ {
			bag = append(bag, k.k)
		}
	}
	return rapid.Custom(func(t *rapid.T) Op {
		op := Op{K: rapid.SampledFrom(bag).Draw(t, "op"), Table: rapid.SampledFrom(c.Tables).Draw(t, "table")}
		if len(c.Parents) > 0 {
			op.Parent = rapid.SampledFrom(c.Parents).Draw(t, "parent")
		}
		op.Clock = I64(rapid.SampledFrom([]int64{0, 1000, 5000, 12345678}).Draw(t, "clock"))
		key := func() BS { return rapid.SampledFrom(c.Keys).Draw(t, "key") }
		switch op.K {
		case "MutateRow":
			op.Key = key()
			op.Muts = GenMuts(c.Fams, 1, 4, c.InvalidPct, c.Quals...).Draw(t, "muts")
		case "MutateRows":
			op.Entries = rapid.SliceOfN(rapid.Custom(func(t *rapid.T) Entry {
				return Entry{Key: key(), Muts: GenMuts(c.Fams, 1, 3, c.InvalidPct, c.Quals...).Draw(t, "muts")}
			}), 1, 3).Draw(t, "entries")
		case "RMW":
			op.Key = key()
			op.Rules = rapid.SliceOfN(rapid.Custom(func(t *rapid.T) RMWRule {
				r := RMWRule{Fam: GenFam(c.Fams, c.InvalidPct).Draw(t, "fam"), Qual: rapid.SampledFrom(c.Quals).Draw(t, "q")}
				if rapid.Bool().Draw(t, "inc") {
					r.Inc, r.Amount = true, rapid.SampledFrom([]int64{1, -1, 7}).Draw(t, "amt")
				} else {
					r.Append = rapid.SampledFrom([]BS{"z", "", "\x00"}).Draw(t, "app")
				}
				return r
			}), 1, 3).Draw(t, "rules")
		case "CheckAndMutate":
			op.Key = key()
			if c.Filters && rapid.IntRange(0, 3).Draw(t, "haspred") > 0 {
				f := GenFilter(2, c.FilterOpts).Draw(t, "pred")
				op.Pred = &f
			}
			op.TMuts = GenMuts(c.Fams, 0, 2, c.InvalidPct, c.Quals...).Draw(t, "tmuts")
			op.FMuts = GenMuts(c.Fams, 0, 2, c.InvalidPct, c.Quals...).Draw(t, "fmuts")
		case "ReadRows":
			op.Rows = GenRowSet(c.Keys).Draw(t, "rows")
			op.Limit = rapid.SampledFrom([]int64{0, 0, 1, 2, 5}).Draw(t, "limit")
			if c.Filters && rapid.IntRange(0, 2).Draw(t, "hasfilter") > 0 {
				f := GenFilter(3, c.FilterOpts).Draw(t, "filter")
				op.Filter = &f
			}
		case "CreateTable":
			op.Fams = genFamDefs(c.Fams).Draw(t, "fams")
		case "ModifyCF":
			op.Mods = rapid.SliceOfN(rapid.Custom(func(t *rapid.T) Mod {
				return Mod{K: rapid.SampledFrom([]string{"create", "create", "update", "drop", "drop"}).Draw(t, "mk"),
					ID: rapid.SampledFrom(c.Fams).Draw(t, "id"), GC: rapid.SampledFrom(gcPool).Draw(t, "gc")}
			}), 1, 4).Draw(t, "mods")
			for i := range op.Mods {
				if op.Mods[i].K == "drop" {
					op.Mods[i].GC = nil
				}
			}
		case "DropRowRange":
			if rapid.IntRange(0, 4).Draw(t, "all") == 0 {
				op.All = true
			} else if rapid.Bool().Draw(t, "fromkeys") {
				op.Prefix = key()
			} else {
				op.Prefix = rapid.SampledFrom(prefixPool).Draw(t, "prefix")
			}
		}
		return op
	})
}

// GenDropRecreate: a scripted scenario that program generators splice in:
// several key-adjacent rows whose only cells are in one family, that family
// dropped and created again (in one request or two), data written elsewhere.
func GenDropRecreate(table, parent string, keys []BS) *rapid.Generator[[]Op] {
	return rapid.Custom(func(t *rapid.T) []Op {
		fam := rapid.SampledFrom([]string{"f", "g", "h"}).Draw(t, "dropfam")
		other := "g"
		if fam == "g" {
			other = "f"
		}
		var ops []Op
		n := rapid.IntRange(2, len(keys)).Draw(t, "nrows")
		for i, k := range keys[:n] {
			muts := []Mut{{K: "set", Fam: fam, Qual: "q", TS: 1000, Val: "x"}}
			if rapid.IntRange(0, 4).Draw(t, "mixed") == 0 {
				muts = append(muts, Mut{K: "set", Fam: other, Qual: "q", TS: 1000, Val: BS(string(rune('a' + i)))})
			}
			ops = append(ops, Op{K: "MutateRow", Parent: parent, Table: table, Key: k, Muts: append([]Mut{{K: "delrow"}}, muts...)})
		}
		if rapid.Bool().Draw(t, "onerequest") {
			ops = append(ops, Op{K: "ModifyCF", Parent: parent, Table: table, Mods: []Mod{{K: "drop", ID: fam}, {K: "create", ID: fam}}})
		} else {
			ops = append(ops, Op{K: "ModifyCF", Parent: parent, Table: table, Mods: []Mod{{K: "drop", ID: fam}}},
				Op{K: "ModifyCF", Parent: parent, Table: table, Mods: []Mod{{K: "create", ID: fam}}})
		}
		ops = append(ops, Op{K: "ReadRows", Parent: parent, Table: table})
		return ops
	})
}
