package bt

import (
	"math"
	"strings"

	"pgregory.net/rapid"
)

// Structure-level perturbations of valid requests (C20).

var hostileInts = []int64{-1, 0, 1, math.MinInt64, math.MaxInt64, math.MinInt32, math.MaxInt32, -1000, 999}

func hostileBS() *rapid.Generator[BS] {
	return rapid.SampledFrom([]BS{"", "\x00", "\xff\xff\xff", BS(strings.Repeat("k", 65536)), "a", "[", "(?P<x"})
}

func hostileFilter(depth int) *rapid.Generator[Filter] {
	return rapid.Custom(func(t *rapid.T) Filter {
		k := rapid.SampledFrom([]string{"unset", "sink", "condnil", "pass", "block", "rowlimit", "rowoffset", "collimit", "sample", "tsrange", "label", "value", "colrange", "chain", "interleave", "cond", "strip"}).Draw(t, "hk")
		if depth <= 0 && (k == "chain" || k == "interleave" || k == "cond") {
			k = "rowlimit"
		}
		f := Filter{K: k}
		switch k {
		case "sink", "pass", "block", "strip":
			f.Flag = rapid.Bool().Draw(t, "flag")
		case "rowlimit", "rowoffset", "collimit":
			f.N = int32(rapid.SampledFrom([]int64{-1, 0, math.MinInt32, math.MaxInt32, 1}).Draw(t, "n"))
		case "sample":
			f.P = rapid.SampledFrom([]float64{math.NaN(), math.Inf(1), math.Inf(-1), -1, 0, 1, 2, 0.5}).Draw(t, "p")
		case "tsrange":
			f.TS = rapid.SampledFrom(hostileInts).Draw(t, "ts")
			f.TE = rapid.SampledFrom(hostileInts).Draw(t, "te")
		case "label":
			f.Label = rapid.SampledFrom([]string{"", "UPPER", strings.Repeat("x", 100), "ok-1"}).Draw(t, "label")
		case "value":
			f.Raw = rapid.SampledFrom(append(append([]BS{}, BadPatterns...), BS(strings.Repeat("(", 2000)), BS(strings.Repeat("a?", 600)+strings.Repeat("a", 600)), "\\C*", "(((a*)*)*)*b")).Draw(t, "raw")
		case "colrange":
			f.Fam = rapid.SampledFrom([]string{"", "f", "nofam"}).Draw(t, "fam")
			f.S = Bound{K: rapid.IntRange(0, 2).Draw(t, "sk"), V: hostileBS().Draw(t, "sv")}
			f.E = Bound{K: rapid.IntRange(0, 2).Draw(t, "ek"), V: hostileBS().Draw(t, "ev")}
		case "chain", "interleave":
			n := rapid.SampledFrom([]int{0, 1, 2, 3, 200}).Draw(t, "nsub")
			if n == 200 {
				sub := hostileFilter(0).Draw(t, "sub")
				for i := 0; i < n; i++ {
					f.Subs = append(f.Subs, sub)
				}
			} else {
				f.Subs = rapid.SliceOfN(hostileFilter(depth-1), n, n).Draw(t, "subs")
			}
		case "cond":
			if rapid.Bool().Draw(t, "hp") {
				x := hostileFilter(depth-1).Draw(t, "pred")
				f.Pred = &x
			}
			if rapid.Bool().Draw(t, "ht") {
				x := hostileFilter(depth-1).Draw(t, "true")
				f.True = &x
			}
			if rapid.Bool().Draw(t, "hf") {
				x := hostileFilter(depth-1).Draw(t, "false")
				f.False = &x
			}
		}
		return f
	})
}

func hostileMut() *rapid.Generator[Mut] {
	return rapid.Custom(func(t *rapid.T) Mut {
		m := Mut{K: rapid.SampledFrom([]string{"unset", "set", "delcol", "delfam", "delrow"}).Draw(t, "mk"),
			Fam: rapid.SampledFrom([]string{"", "f", "nofam", strings.Repeat("F", 70000)}).Draw(t, "fam"), Qual: hostileBS().Draw(t, "q"),
			TS: rapid.SampledFrom(hostileInts).Draw(t, "ts"), Val: hostileBS().Draw(t, "v")}
		if m.K == "delcol" {
			m.Range = rapid.Bool().Draw(t, "range")
			m.Start = rapid.SampledFrom(hostileInts).Draw(t, "s")
			m.End = rapid.SampledFrom(hostileInts).Draw(t, "e")
		}
		return m
	})
}

// GenHostileOp: requests with unset oneofs / sub-messages, extreme numbers,
// empty or huge names and keys, missing tables, degenerate collections.
func GenHostileOp(tables []string) *rapid.Generator[Op] {
	return rapid.Custom(func(t *rapid.T) Op {
		op := Op{K: rapid.SampledFrom([]string{"MutateRow", "MutateRows", "CheckAndMutate", "RMW", "ReadRows", "ReadRows", "Sample", "CreateTable", "GetTable", "ListTables",
			"DeleteTable", "ModifyCF", "DropRowRange", "GenToken", "CheckConsistency"}).Draw(t, "op"),
			Table:  rapid.SampledFrom(append(append([]string{}, tables...), "", "nope", strings.Repeat("t", 70000), "a/b", "x/tables/y")).Draw(t, "table"),
			Parent: rapid.SampledFrom([]string{"", "", "", "p", strings.Repeat("p", 70000)}).Draw(t, "parent")}
		op.Key = hostileBS().Draw(t, "key")
		switch op.K {
		case "MutateRow":
			op.Muts = rapid.SliceOfN(hostileMut(), 0, 4).Draw(t, "muts")
		case "MutateRows":
			n := rapid.SampledFrom([]int{0, 1, 2, 3}).Draw(t, "ne")
			for i := 0; i < n; i++ {
				op.Entries = append(op.Entries, Entry{Key: hostileBS().Draw(t, "ek"), Muts: rapid.SliceOfN(hostileMut(), 0, 3).Draw(t, "em")})
			}
			if n > 0 && rapid.Bool().Draw(t, "dup") {
				op.Entries = append(op.Entries, op.Entries[0], op.Entries[0])
			}
		case "CheckAndMutate":
			if rapid.Bool().Draw(t, "hp") {
				f := hostileFilter(2).Draw(t, "pred")
				op.Pred = &f
			}
			op.TMuts = rapid.SliceOfN(hostileMut(), 0, 3).Draw(t, "tm")
			op.FMuts = rapid.SliceOfN(hostileMut(), 0, 3).Draw(t, "fm")
		case "RMW":
			op.Rules = rapid.SliceOfN(rapid.Custom(func(t *rapid.T) RMWRule {
				return RMWRule{Fam: rapid.SampledFrom([]string{"", "f", "nofam"}).Draw(t, "fam"), Qual: hostileBS().Draw(t, "q"), Inc: rapid.Bool().Draw(t, "inc"),
					Amount: rapid.SampledFrom(hostileInts).Draw(t, "amt"), Append: hostileBS().Draw(t, "app"), Unset: rapid.IntRange(0, 3).Draw(t, "unset") == 0}
			}), 0, 4).Draw(t, "rules")
		case "ReadRows":
			op.Limit = rapid.SampledFrom(hostileInts).Draw(t, "limit")
			if rapid.IntRange(0, 3).Draw(t, "hf") > 0 {
				f := hostileFilter(2).Draw(t, "filter")
				op.Filter = &f
			}
			switch rapid.IntRange(0, 4).Draw(t, "rsk") {
			case 0:
			case 1:
				op.Rows = &RowSet{}
			case 2:
				rs := &RowSet{}
				for i := 0; i < 10000; i++ {
					rs.Ranges = append(rs.Ranges, Range{S: Bound{K: 2, V: "a"}, E: Bound{K: 1, V: "b"}})
				}
				op.Rows = rs
			default:
				rs := &RowSet{Keys: rapid.SliceOfN(hostileBS(), 0, 3).Draw(t, "keys")}
				for i, n := 0, rapid.IntRange(0, 3).Draw(t, "nr"); i < n; i++ {
					rs.Ranges = append(rs.Ranges, Range{S: Bound{K: rapid.IntRange(0, 2).Draw(t, "sk"), V: hostileBS().Draw(t, "sv")}, E: Bound{K: rapid.IntRange(0, 2).Draw(t, "ek"), V: hostileBS().Draw(t, "ev")}})
				}
				op.Rows = rs
			}
		case "CreateTable":
			op.NoTable = rapid.Bool().Draw(t, "notable")
			if !op.NoTable {
				op.Fams = []FamDef{{Name: rapid.SampledFrom([]string{"", "f", strings.Repeat("f", 70000)}).Draw(t, "fam"),
					GC: rapid.SampledFrom([]*GC{nil, {K: "empty"}, {K: "maxv", N: -1}, {K: "maxage", Sec: math.MinInt64, Nanos: -1}, {K: "union"}, {K: "inter"}}).Draw(t, "gc")}}
			}
		case "ModifyCF":
			op.Mods = rapid.SliceOfN(rapid.Custom(func(t *rapid.T) Mod {
				return Mod{K: rapid.SampledFrom([]string{"create", "update", "drop", "dropfalse", "unset"}).Draw(t, "mk"), ID: rapid.SampledFrom([]string{"", "f", "g", "nofam"}).Draw(t, "id"),
					GC: rapid.SampledFrom([]*GC{nil, {K: "empty"}, {K: "maxv", N: -1}, {K: "union"}}).Draw(t, "gc")}
			}), 0, 4).Draw(t, "mods")
		case "DropRowRange":
			switch rapid.IntRange(0, 2).Draw(t, "tgt") {
			case 0:
				op.NoTgt = true
			case 1:
				op.All = true
			default:
				op.Prefix = hostileBS().Draw(t, "prefix")
			}
		case "CheckConsistency":
			op.Token = rapid.SampledFrom([]string{"", "TokenFor-x", strings.Repeat("T", 70000)}).Draw(t, "token")
		}
		return op
	})
}

// MutateBytes applies byte-level perturbations (flip, insert, delete, truncate, splice).
func MutateBytes(b []byte, other []byte) *rapid.Generator[[]byte] {
	return rapid.Custom(func(t *rapid.T) []byte {
		out := append([]byte{}, b...)
		for i, n := 0, rapid.IntRange(1, 4).Draw(t, "nmut"); i < n; i++ {
			switch rapid.IntRange(0, 4).Draw(t, "kind") {
			case 0:
				if len(out) > 0 {
					p := rapid.IntRange(0, len(out)-1).Draw(t, "pos")
					out[p] ^= byte(1 << rapid.IntRange(0, 7).Draw(t, "bit"))
				}
			case 1:
				p := rapid.IntRange(0, len(out)).Draw(t, "pos")
				ins := rapid.SliceOfN(rapid.Byte(), 1, 4).Draw(t, "ins")
				out = append(out[:p:p], append(ins, out[p:]...)...)
			case 2:
				if len(out) > 0 {
					p := rapid.IntRange(0, len(out)-1).Draw(t, "pos")
					out = append(out[:p:p], out[p+1:]...)
				}
			case 3:
				if len(out) > 0 {
					out = out[:rapid.IntRange(0, len(out)-1).Draw(t, "cut")]
				}
			default:
				if len(other) > 0 {
					p := rapid.IntRange(0, len(out)).Draw(t, "pos")
					q := rapid.IntRange(0, len(other)).Draw(t, "from")
					out = append(out[:p:p], other[q:]...)
				}
			}
		}
		return out
	})
}
