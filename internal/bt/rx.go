package bt

import (
	"fmt"
	"strings"
)

// Rx is a small regular-expression AST. It is rendered to an RE2 pattern for
// the emulator and matched by MatchFull below (an independent backtracking
// matcher: the oracle never calls a regexp library).
//
// Semantics (RE2, binary/Latin-1 mode as used by Bigtable): every byte is one
// character; '.' matches any byte except '\n'; \C matches any byte; a negated
// class matches any byte not listed (including '\n').
type Rx struct {
	K    string `json:"k"` // lit | dot | anyc | class | cat | alt | star | plus | opt | rep
	Lit  BS     `json:"lit,omitempty"`
	Neg  bool   `json:"neg,omitempty"`
	Set  BS     `json:"set,omitempty"` // class members (printable ASCII letters/digits only)
	Subs []Rx   `json:"subs,omitempty"`
	Min  int    `json:"min,omitempty"`
	Max  int    `json:"max,omitempty"`
}

const rxMeta = `\.+*?()|[]{}^$`

func renderByte(sb *strings.Builder, c byte) {
	switch {
	case strings.IndexByte(rxMeta, c) >= 0:
		sb.WriteByte('\\')
		sb.WriteByte(c)
	case c < 0x20 || c == 0x7f:
		fmt.Fprintf(sb, `\x%02X`, c)
	default:
		// bytes > 0x7f are written raw; the emulator escapes them itself
		sb.WriteByte(c)
	}
}

func (r *Rx) render(sb *strings.Builder) {
	switch r.K {
	case "lit":
		for i := 0; i < len(r.Lit); i++ {
			renderByte(sb, r.Lit[i])
		}
	case "dot":
		sb.WriteByte('.')
	case "anyc":
		sb.WriteString(`\C`)
	case "class":
		sb.WriteByte('[')
		if r.Neg {
			sb.WriteByte('^')
		}
		sb.WriteString(string(r.Set))
		sb.WriteByte(']')
	case "cat":
		for i := range r.Subs {
			if r.Subs[i].K == "alt" {
				sb.WriteString("(?:")
				r.Subs[i].render(sb)
				sb.WriteByte(')')
			} else {
				r.Subs[i].render(sb)
			}
		}
	case "alt":
		for i := range r.Subs {
			if i > 0 {
				sb.WriteByte('|')
			}
			r.Subs[i].render(sb)
		}
	case "star", "plus", "opt", "rep":
		sb.WriteString("(?:")
		r.Subs[0].render(sb)
		sb.WriteByte(')')
		switch r.K {
		case "star":
			sb.WriteByte('*')
		case "plus":
			sb.WriteByte('+')
		case "opt":
			sb.WriteByte('?')
		case "rep":
			fmt.Fprintf(sb, "{%d,%d}", r.Min, r.Max)
		}
	}
}

func (r *Rx) Render() string {
	var sb strings.Builder
	r.render(&sb)
	return sb.String()
}

// MatchFull reports whether the whole of in matches r.
func (r *Rx) MatchFull(in []byte) bool {
	budget := 200000
	return r.m(in, 0, func(p int) bool { return p == len(in) }, &budget)
}

func (r *Rx) m(in []byte, pos int, k func(int) bool, budget *int) bool {
	*budget--
	if *budget < 0 {
		panic("rx: budget exhausted")
	}
	switch r.K {
	case "lit":
		if len(in)-pos < len(r.Lit) || string(in[pos:pos+len(r.Lit)]) != string(r.Lit) {
			return false
		}
		return k(pos + len(r.Lit))
	case "dot":
		if pos >= len(in) || in[pos] == '\n' {
			return false
		}
		return k(pos + 1)
	case "anyc":
		if pos >= len(in) {
			return false
		}
		return k(pos + 1)
	case "class":
		if pos >= len(in) {
			return false
		}
		member := strings.IndexByte(string(r.Set), in[pos]) >= 0
		if member == r.Neg {
			return false
		}
		return k(pos + 1)
	case "cat":
		return r.cat(in, pos, 0, k, budget)
	case "alt":
		for i := range r.Subs {
			if r.Subs[i].m(in, pos, k, budget) {
				return true
			}
		}
		return false
	case "star":
		return r.repeat(in, pos, 0, -1, 0, k, budget)
	case "plus":
		return r.repeat(in, pos, 1, -1, 0, k, budget)
	case "opt":
		return r.repeat(in, pos, 0, 1, 0, k, budget)
	case "rep":
		return r.repeat(in, pos, r.Min, r.Max, 0, k, budget)
	}
	return false
}

func (r *Rx) cat(in []byte, pos, i int, k func(int) bool, budget *int) bool {
	if i == len(r.Subs) {
		return k(pos)
	}
	return r.Subs[i].m(in, pos, func(p int) bool { return r.cat(in, p, i+1, k, budget) }, budget)
}

// repeat: sub repeated between min and max (max<0 = unbounded) times; n done so far.
func (r *Rx) repeat(in []byte, pos, min, max, n int, k func(int) bool, budget *int) bool {
	if max < 0 || n < max {
		if r.Subs[0].m(in, pos, func(p int) bool {
			if p == pos && n >= min {
				return false // no progress: an empty iteration adds nothing
			}
			return r.repeat(in, p, min, max, n+1, k, budget)
		}, budget) {
			return true
		}
	}
	if n >= min {
		return k(pos)
	}
	return false
}
