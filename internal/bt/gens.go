package bt

import (
	"math"

	"pgregory.net/rapid"
)

// Adversarial byte-string pool: prefix pairs, 0x00 / 0xff neighbours.
var keyPool = []BS{"a", "a\x00", "a\x00\x00", "ab", "b", "\x00", "\xff", "\xff\xff", "a\xff", "b\x00"}

var AllFams = []string{"f", "g", "h"}

func GenKey() *rapid.Generator[BS] {
	return rapid.OneOf(
		rapid.SampledFrom(keyPool),
		rapid.SampledFrom(keyPool),
		rapid.SampledFrom(keyPool),
		rapid.Custom(func(t *rapid.T) BS {
			n := rapid.IntRange(1, 3).Draw(t, "n")
			b := make([]byte, n)
			for i := range b {
				b[i] = rapid.SampledFrom([]byte{0, 1, 'a', 'b', 'c', 0x7f, 0x80, 0xfe, 0xff}).Draw(t, "b")
			}
			return BS(b)
		}),
	)
}

func GenQual() *rapid.Generator[BS] {
	return rapid.OneOf(rapid.Just(BS("")), rapid.SampledFrom([]BS{"q", "q1", "q2", "q\x00", "\xff", "Q"}), rapid.SampledFrom([]BS{"q", "q1", "q2"}), GenKey())
}

func GenVal() *rapid.Generator[BS] {
	return rapid.OneOf(rapid.Just(BS("")), rapid.SampledFrom([]BS{"v", "v1", "x\ny", "\x00", "\xff\xfe"}), GenKey(),
		rapid.SampledFrom([]BS{"\x00\x00\x00\x00\x00\x00\x00\x05", "\x7f\xff\xff\xff\xff\xff\xff\xff", "\x80\x00\x00\x00\x00\x00\x00\x00", "\xff\xff\xff\xff\xff\xff\xff\xff", "1234567", "123456789"}))
}

var validTSPool = []int64{0, 1000, 2000, 3000, MaxTS, MaxTS - 1000}
var invalidTSPool = []int64{-2, -1000, 1, 1500, math.MaxInt64, math.MinInt64, MaxTS + 1}

// GenTS: mostly valid timestamps, sometimes server time, sometimes invalid.
func GenTS(invalidPct int) *rapid.Generator[int64] {
	return rapid.Custom(func(t *rapid.T) int64 {
		r := rapid.IntRange(0, 99).Draw(t, "tsclass")
		switch {
		case r < invalidPct:
			return rapid.SampledFrom(invalidTSPool).Draw(t, "badts")
		case r < invalidPct+15:
			return -1
		default:
			return rapid.SampledFrom(validTSPool).Draw(t, "ts")
		}
	})
}

// GenFam: a family of the table, or (unknownPct%) one that does not exist.
func GenFam(fams []string, unknownPct int) *rapid.Generator[string] {
	return rapid.Custom(func(t *rapid.T) string {
		if len(fams) == 0 || rapid.IntRange(0, 99).Draw(t, "famclass") < unknownPct {
			return rapid.SampledFrom([]string{"nofam", "", "F"}).Draw(t, "unkfam")
		}
		return rapid.SampledFrom(fams).Draw(t, "fam")
	})
}

// GenQuals draws a small per-case qualifier pool so that columns are revisited.
func GenQuals() *rapid.Generator[[]BS] {
	return rapid.SliceOfNDistinct(GenQual(), 1, 4, func(b BS) BS { return b })
}

// GenMut draws one mutation. invalidPct steers how often it is one the API rejects.
func GenMut(fams []string, invalidPct int, quals ...BS) *rapid.Generator[Mut] {
	return rapid.Custom(func(t *rapid.T) Mut {
		GenQual := func() *rapid.Generator[BS] {
			if len(quals) > 0 {
				return rapid.SampledFrom(quals)
			}
			return GenQual()
		}
		k := rapid.SampledFrom([]string{"set", "set", "set", "set", "set", "delcol", "delcol", "delfam", "delrow"}).Draw(t, "kind")
		m := Mut{K: k}
		switch k {
		case "set":
			m.Fam = GenFam(fams, invalidPct).Draw(t, "f")
			m.Qual = GenQual().Draw(t, "q")
			m.TS = GenTS(invalidPct).Draw(t, "ts")
			m.Val = GenVal().Draw(t, "v")
		case "delcol":
			m.Fam = GenFam(fams, invalidPct).Draw(t, "f")
			m.Qual = GenQual().Draw(t, "q")
			if rapid.Bool().Draw(t, "range") {
				m.Range = true
				pool := validTSPool
				if rapid.IntRange(0, 99).Draw(t, "badrange") < invalidPct {
					pool = append(append([]int64{}, validTSPool...), -1000, 1, 1500, -1)
				}
				m.Start = rapid.SampledFrom(pool).Draw(t, "s")
				m.End = rapid.SampledFrom(pool).Draw(t, "e")
				if rapid.IntRange(0, 99).Draw(t, "order") >= invalidPct && m.End != 0 && m.Start >= m.End {
					m.Start, m.End = m.End, m.Start
					if m.Start == m.End {
						m.End = 0
					}
				}
			}
		case "delfam":
			m.Fam = GenFam(fams, invalidPct).Draw(t, "f")
		}
		return m
	})
}

func GenMuts(fams []string, min, max, invalidPct int, quals ...BS) *rapid.Generator[[]Mut] {
	return rapid.SliceOfN(GenMut(fams, invalidPct, quals...), min, max)
}

var clockPool = []int64{0, 999, 1000, 1001, 12345678, MaxTS, math.MaxInt64}

func GenClock() *rapid.Generator[int64] { return rapid.SampledFrom(clockPool) }

func I64(v int64) *int64 { return &v }
