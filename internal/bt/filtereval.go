package bt

import (
	"bytes"
	"sort"
	"strings"
)

// Reference evaluator for row filters, written from the comments in
// google/bigtable/v2/data.proto. Input: the row key and the row's cells in the
// order an unfiltered read streams them.

type EvalStatus int

const (
	EvOK          EvalStatus = iota
	EvInvalid                // an invalid node was evaluated on >=1 input cell: the read must fail with InvalidArgument
	EvInvalidLazy            // an invalid node exists on the evaluation path but saw no cell: error or lazy result both fine
)

type evalState struct {
	key       []byte
	sample    []bool // decisions for sample nodes, in evaluation order
	sampleIdx int
	status    EvalStatus
	unspec    bool // semantics not fixed by the documentation (double label, family order after interleave, count 0)
	zeroCount bool // a count of 0 was evaluated (accepted as InvalidArgument or "no cells")
}

type EvalResult struct {
	Cells     []Cell
	Status    EvalStatus
	Unspec    bool
	ZeroCount bool
	Samples   int // number of sample nodes evaluated
}

// EvalFilter applies f to one row. sample gives the pass(true)/block(false)
// decision for each valid row_sample node in evaluation order (missing = pass).
func EvalFilter(f *Filter, key BS, cells []Cell, sample []bool) EvalResult {
	st := &evalState{key: key.B(), sample: sample}
	in := make([]Cell, len(cells))
	copy(in, cells)
	out := st.eval(f, in, false)
	if st.status == EvInvalid {
		out = nil
	}
	return EvalResult{Cells: out, Status: st.status, Unspec: st.unspec, ZeroCount: st.zeroCount, Samples: st.sampleIdx}
}

func (st *evalState) invalid(nInput int) {
	if nInput > 0 {
		st.status = EvInvalid
	} else if st.status == EvOK {
		st.status = EvInvalidLazy
	}
}

func inRange(v []byte, s, e Bound) bool {
	switch s.K {
	case 1:
		if bytes.Compare(v, s.V.B()) <= 0 {
			return false
		}
	case 2:
		if bytes.Compare(v, s.V.B()) < 0 {
			return false
		}
	}
	switch e.K {
	case 1:
		if bytes.Compare(v, e.V.B()) >= 0 {
			return false
		}
	case 2:
		if bytes.Compare(v, e.V.B()) > 0 {
			return false
		}
	}
	return true
}

func famCount(cells []Cell) int {
	seen := map[string]bool{}
	for _, c := range cells {
		seen[c.Fam] = true
	}
	return len(seen)
}

// eval returns the cells f lets through. ambiguous: the family order of the
// input is not determined by the documentation (after an interleave).
func (st *evalState) eval(f *Filter, in []Cell, ambiguous bool) []Cell {
	if st.status == EvInvalid {
		return nil
	}
	if f == nil {
		return in
	}
	keep := func(pred func(c *Cell) bool) []Cell {
		var out []Cell
		for i := range in {
			if pred(&in[i]) {
				out = append(out, in[i])
			}
		}
		return out
	}
	switch f.K {
	case "pass":
		if !f.Flag {
			st.invalid(len(in))
			return nil
		}
		return in
	case "block":
		if !f.Flag {
			st.invalid(len(in))
			return nil
		}
		return nil
	case "rowkey", "family", "qual", "value":
		if f.Rx == nil { // known-bad pattern
			st.invalid(len(in))
			return nil
		}
		switch f.K {
		case "rowkey":
			if f.Rx.MatchFull(st.key) {
				return in
			}
			return nil
		case "family":
			return keep(func(c *Cell) bool { return f.Rx.MatchFull([]byte(c.Fam)) })
		case "qual":
			return keep(func(c *Cell) bool { return f.Rx.MatchFull(c.Qual.B()) })
		default:
			return keep(func(c *Cell) bool { return f.Rx.MatchFull(c.Val.B()) })
		}
	case "colrange":
		return keep(func(c *Cell) bool { return c.Fam == f.Fam && inRange(c.Qual.B(), f.S, f.E) })
	case "valrange":
		return keep(func(c *Cell) bool { return inRange(c.Val.B(), f.S, f.E) })
	case "tsrange":
		if f.TS%1000 != 0 || f.TE%1000 != 0 {
			st.invalid(len(in))
			return nil
		}
		return keep(func(c *Cell) bool { return c.TS >= f.TS && (f.TE == 0 || c.TS < f.TE) })
	case "rowlimit", "rowoffset", "collimit":
		if f.N < 0 {
			st.invalid(len(in))
			return nil
		}
		if f.N == 0 {
			st.zeroCount = true
		}
		n := int(f.N)
		// After an interleave a column can hold several cells with the same timestamp (one per branch) that
		// differ in value or labels; their relative order is not defined, so a cut that separates them is not either.
		cutsDuplicates := func(pos int) bool {
			if pos <= 0 || pos >= len(in) {
				return false
			}
			a, b := &in[pos-1], &in[pos]
			if a.Fam != b.Fam || a.Qual != b.Qual || a.TS != b.TS {
				return false
			}
			// the whole run of equal (family, qualifier, timestamp) cells must be identical for the cut to be defined
			lo, hi := pos-1, pos
			for lo > 0 && in[lo-1].Fam == a.Fam && in[lo-1].Qual == a.Qual && in[lo-1].TS == a.TS {
				lo--
			}
			for hi+1 < len(in) && in[hi+1].Fam == a.Fam && in[hi+1].Qual == a.Qual && in[hi+1].TS == a.TS {
				hi++
			}
			for i := lo + 1; i <= hi; i++ {
				if in[i].Val != in[lo].Val || strings.Join(in[i].Labels, ",") != strings.Join(in[lo].Labels, ",") {
					return true
				}
			}
			return false
		}
		switch f.K {
		case "rowlimit":
			if n >= len(in) {
				return in
			}
			if (ambiguous && famCount(in) > 1) || cutsDuplicates(n) {
				st.unspec = true
			}
			return in[:n]
		case "rowoffset":
			if n >= len(in) {
				return nil
			}
			if n > 0 && ((ambiguous && famCount(in) > 1) || cutsDuplicates(n)) {
				st.unspec = true
			}
			return in[n:]
		default:
			var out []Cell
			cnt := 0
			for i := range in {
				if i > 0 && in[i].Fam == in[i-1].Fam && in[i].Qual == in[i-1].Qual {
					cnt++
				} else {
					cnt = 1
				}
				if cnt <= n {
					out = append(out, in[i])
				} else if cnt == n+1 && cutsDuplicates(i) {
					st.unspec = true
				}
			}
			return out
		}
	case "strip":
		out := make([]Cell, len(in))
		for i := range in {
			out[i] = in[i]
			out[i].Val = ""
		}
		return out
	case "label":
		out := make([]Cell, len(in))
		for i := range in {
			out[i] = in[i]
			if len(in[i].Labels) > 0 {
				st.unspec = true // several labels on one cell: not supported by the API
			}
			out[i].Labels = []string{f.Label}
		}
		return out
	case "sample":
		if !(f.P > 0 && f.P < 1) {
			st.invalid(len(in))
			return nil
		}
		pass := true
		if st.sampleIdx < len(st.sample) {
			pass = st.sample[st.sampleIdx]
		}
		st.sampleIdx++
		if pass {
			return in
		}
		return nil
	case "chain":
		if len(f.Subs) < 2 {
			st.invalid(len(in))
			return nil
		}
		cur := in
		for i := range f.Subs {
			cur = st.eval(&f.Subs[i], cur, ambiguous)
			if st.status == EvInvalid {
				return nil
			}
			if hasInterleave(&f.Subs[i]) {
				ambiguous = true
			}
		}
		return cur
	case "interleave":
		if len(f.Subs) < 2 {
			st.invalid(len(in))
			return nil
		}
		var all []Cell
		for i := range f.Subs {
			cp := make([]Cell, len(in))
			copy(cp, in)
			out := st.eval(&f.Subs[i], cp, ambiguous)
			if st.status == EvInvalid {
				return nil
			}
			all = append(all, out...)
		}
		return mergeInterleave(in, all)
	case "cond":
		cp := make([]Cell, len(in))
		copy(cp, in)
		p := st.eval(f.Pred, cp, ambiguous)
		if st.status == EvInvalid {
			return nil
		}
		br := f.False
		if len(p) > 0 {
			br = f.True
		}
		if br == nil {
			return nil
		}
		return st.eval(br, in, ambiguous)
	}
	// unknown kinds are not generated for semantic checks
	st.unspec = true
	return in
}

// HasInterleave reports whether the tree contains an interleave node.
func HasInterleave(f *Filter) bool { return hasInterleave(f) }

func hasInterleave(f *Filter) bool {
	if f == nil {
		return false
	}
	if f.K == "interleave" {
		return true
	}
	for i := range f.Subs {
		if hasInterleave(&f.Subs[i]) {
			return true
		}
	}
	return hasInterleave(f.Pred) || hasInterleave(f.True) || hasInterleave(f.False)
}

// mergeInterleave orders the union of the branch outputs: families in the
// order of the interleave's input, qualifiers ascending, timestamps descending
// (stable, so equal timestamps keep branch order; the comparison treats those
// as a multiset anyway).
func mergeInterleave(in, all []Cell) []Cell {
	famPos := map[string]int{}
	for _, c := range in {
		if _, ok := famPos[c.Fam]; !ok {
			famPos[c.Fam] = len(famPos)
		}
	}
	sort.SliceStable(all, func(i, j int) bool {
		a, b := &all[i], &all[j]
		if a.Fam != b.Fam {
			return famPos[a.Fam] < famPos[b.Fam]
		}
		if a.Qual != b.Qual {
			return a.Qual < b.Qual
		}
		return a.TS > b.TS
	})
	return all
}

// StaticInvalid reports whether the tree contains a node with an argument the
// API defines as invalid (anywhere, reached or not).
func StaticInvalid(f *Filter) bool {
	if f == nil {
		return false
	}
	switch f.K {
	case "pass", "block":
		if !f.Flag {
			return true
		}
	case "rowkey", "family", "qual", "value":
		if f.Rx == nil {
			return true
		}
	case "tsrange":
		if f.TS%1000 != 0 || f.TE%1000 != 0 {
			return true
		}
	case "rowlimit", "rowoffset", "collimit":
		if f.N <= 0 { // 0 is accepted either way
			return true
		}
	case "sample":
		if !(f.P > 0 && f.P < 1) {
			return true
		}
	case "chain", "interleave":
		if len(f.Subs) < 2 {
			return true
		}
	}
	for i := range f.Subs {
		if StaticInvalid(&f.Subs[i]) {
			return true
		}
	}
	return StaticInvalid(f.Pred) || StaticInvalid(f.True) || StaticInvalid(f.False)
}

// RootInvalid reports an invalid argument on the root node itself, for the node
// kinds whose argument does not depend on any cell (flags, counts, arity, the
// row-key regex, the sample probability). The root is evaluated for every row
// the filter is applied to, with or without cells, so such a filter can never
// be "lazily valid": C12 ("an invalid predicate makes the request fail") and
// C05 ("never ignored") demand InvalidArgument.
func RootInvalid(f *Filter) bool {
	if f == nil {
		return false
	}
	switch f.K {
	case "pass", "block":
		return !f.Flag
	case "rowkey":
		return f.Rx == nil
	case "rowlimit", "rowoffset", "collimit":
		return f.N < 0
	case "sample":
		return !(f.P > 0 && f.P < 1)
	case "chain", "interleave":
		return len(f.Subs) < 2
	}
	return false
}

// CountSampleNodes counts row_sample nodes in the tree.
func CountSampleNodes(f *Filter) int {
	if f == nil {
		return 0
	}
	n := 0
	if f.K == "sample" {
		n++
	}
	for i := range f.Subs {
		n += CountSampleNodes(&f.Subs[i])
	}
	return n + CountSampleNodes(f.Pred) + CountSampleNodes(f.True) + CountSampleNodes(f.False)
}

// Depth of a filter tree.
func (f *Filter) Depth() int {
	if f == nil {
		return 0
	}
	d := 0
	for i := range f.Subs {
		if x := f.Subs[i].Depth(); x > d {
			d = x
		}
	}
	for _, s := range []*Filter{f.Pred, f.True, f.False} {
		if x := s.Depth(); x > d {
			d = x
		}
	}
	return d + 1
}

// Kinds lists the node kinds in the tree (for labels).
func (f *Filter) Kinds(into map[string]bool) {
	if f == nil {
		return
	}
	into[f.K] = true
	for i := range f.Subs {
		f.Subs[i].Kinds(into)
	}
	f.Pred.Kinds(into)
	f.True.Kinds(into)
	f.False.Kinds(into)
}
