package bt

import (
	"context"
	"fmt"
	"os"
	"runtime/debug"
	"sort"
	"sync/atomic"
	"time"

	"cloud.google.com/go/bigtable"
	btapb "cloud.google.com/go/bigtable/admin/apiv2/adminpb"
	btpb "cloud.google.com/go/bigtable/apiv2/bigtablepb"
	"github.com/fullstorydev/emulators/bigtable/bttest"
	"google.golang.org/grpc/codes"
	"google.golang.org/grpc/metadata"
	"google.golang.org/grpc/status"
	"google.golang.org/protobuf/proto"
)

var Engines = []string{"btree", "leveldb-mem", "leveldb-disk"}

// Srv is one emulator instance driven by direct calls.
type Srv struct {
	Engine string
	Dir    string // root of the disk engine ("" otherwise)
	S      *bttest.Server
	API    bttest.VerifAPI
	clock  int64
	// WrapStorage, when set before Start, decorates the storage engine.
	ownDir bool
}

func storageFor(engine, dir string) bttest.Storage {
	switch engine {
	case "btree":
		return bttest.BtreeStorage{}
	case "leveldb-mem":
		return bttest.LeveldbMemStorage{}
	case "leveldb-disk":
		return bttest.LeveldbDiskStorage{Root: dir}
	}
	panic("unknown engine " + engine)
}

// NewSrv starts an emulator on the given engine. For the disk engine dir is the
// root ("" = a fresh temporary directory removed by Close).
func NewSrv(engine, dir string) (*Srv, error) {
	return NewSrvWrap(engine, dir, nil)
}

func NewSrvWrap(engine, dir string, wrap func(bttest.Storage) bttest.Storage) (s *Srv, err error) {
	s = &Srv{Engine: engine, Dir: dir}
	if engine == "leveldb-disk" && dir == "" {
		d, e := os.MkdirTemp("", "btdisk")
		if e != nil {
			return nil, e
		}
		s.Dir = d
		s.ownDir = true
	}
	defer func() {
		if r := recover(); r != nil {
			err = fmt.Errorf("panic while starting the server: %v\n%s", r, debug.Stack())
		}
	}()
	st := storageFor(engine, s.Dir)
	if wrap != nil {
		st = wrap(st)
	}
	srv, e := bttest.NewServerWithOptions("127.0.0.1:0", bttest.Options{
		Storage: st,
		Clock:   func() bigtable.Timestamp { return bigtable.Timestamp(atomic.LoadInt64(&s.clock)) },
	})
	if e != nil {
		return nil, e
	}
	s.S = srv
	s.API = bttest.VerifServices(srv)
	return s, nil
}

func (s *Srv) SetClock(us int64) { atomic.StoreInt64(&s.clock, us) }

// Close stops the server and removes an owned directory.
func (s *Srv) Close() {
	if s.S != nil {
		func() {
			defer func() { _ = recover() }()
			s.S.Close()
		}()
		s.S = nil
	}
	if s.ownDir && s.Dir != "" {
		_ = os.RemoveAll(s.Dir)
	}
}

// ------------------------------------------------------------------ streams

type baseStream struct{ ctx context.Context }

func (b *baseStream) SetHeader(metadata.MD) error  { return nil }
func (b *baseStream) SendHeader(metadata.MD) error { return nil }
func (b *baseStream) SetTrailer(metadata.MD)       {}
func (b *baseStream) Context() context.Context {
	if b.ctx != nil {
		return b.ctx
	}
	return context.Background()
}
func (b *baseStream) SendMsg(m interface{}) error { return nil }
func (b *baseStream) RecvMsg(m interface{}) error { return nil }

// ReadStream collects marshalled ReadRows responses; OnSend (optional) is
// called after each message was marshalled, i.e. while the scan has released
// the table lock.
type ReadStream struct {
	baseStream
	Msgs   [][]byte
	OnSend func(n int) error
}

func (r *ReadStream) Send(m *btpb.ReadRowsResponse) error {
	buf, err := proto.Marshal(m)
	if err != nil {
		return err
	}
	r.Msgs = append(r.Msgs, buf)
	if r.OnSend != nil {
		return r.OnSend(len(r.Msgs))
	}
	return nil
}

type mutStream struct {
	baseStream
	msgs [][]byte
}

func (r *mutStream) Send(m *btpb.MutateRowsResponse) error {
	buf, err := proto.Marshal(m)
	if err != nil {
		return err
	}
	r.msgs = append(r.msgs, buf)
	return nil
}

type sampleStream struct {
	baseStream
	msgs [][]byte
}

func (r *sampleStream) Send(m *btpb.SampleRowKeysResponse) error {
	buf, err := proto.Marshal(m)
	if err != nil {
		return err
	}
	r.msgs = append(r.msgs, buf)
	return nil
}

// ------------------------------------------------------------------ decoding

// DecodeRead turns the marshalled messages into rows, validating the chunk
// stream. The first format error is returned in streamErr.
func DecodeRead(msgs [][]byte) (rows []RowOut, streamErr string) {
	inRow := false
	var cur RowOut
	var fam string
	var qual BS
	haveFam, haveQual := false, false
	fail := func(f string, a ...interface{}) {
		if streamErr == "" {
			streamErr = fmt.Sprintf(f, a...)
		}
	}
	for mi, raw := range msgs {
		var m btpb.ReadRowsResponse
		if err := proto.Unmarshal(raw, &m); err != nil {
			fail("message %d does not unmarshal: %v", mi, err)
			return
		}
		if len(m.Chunks) == 0 {
			fail("message %d has no chunks", mi)
		}
		for ci, ch := range m.Chunks {
			if len(ch.RowKey) > 0 {
				if inRow {
					fail("msg %d chunk %d: row key %q inside uncommitted row %q", mi, ci, ch.RowKey, cur.Key)
				}
				inRow = true
				cur = RowOut{Key: BS(ch.RowKey)}
				haveFam, haveQual = false, false
				if ch.FamilyName == nil || ch.Qualifier == nil {
					fail("msg %d chunk %d: first chunk of row %q lacks family or qualifier", mi, ci, ch.RowKey)
				}
			} else if !inRow {
				fail("msg %d chunk %d: chunk belongs to no row", mi, ci)
				continue
			}
			if ch.FamilyName != nil {
				fam = ch.FamilyName.Value
				haveFam = true
				if ch.Qualifier == nil {
					fail("msg %d chunk %d: family change without qualifier", mi, ci)
				}
			}
			if ch.Qualifier != nil {
				qual = BS(ch.Qualifier.Value)
				haveQual = true
			}
			if !haveFam || !haveQual {
				fail("msg %d chunk %d: cell without family/qualifier context", mi, ci)
			}
			if ch.ValueSize != 0 {
				fail("msg %d chunk %d: split value (value_size=%d) not expected", mi, ci, ch.ValueSize)
			}
			cur.Cells = append(cur.Cells, Cell{Fam: fam, Qual: qual, TS: ch.TimestampMicros, Val: BS(ch.Value), Labels: ch.Labels})
			switch st := ch.RowStatus.(type) {
			case *btpb.ReadRowsResponse_CellChunk_CommitRow:
				if st.CommitRow {
					rows = append(rows, cur)
					inRow = false
				}
			case *btpb.ReadRowsResponse_CellChunk_ResetRow:
				fail("msg %d chunk %d: reset_row", mi, ci)
			}
		}
	}
	if inRow {
		fail("stream ended inside row %q (no commit)", cur.Key)
	}
	return
}

func rowFromPB(r *btpb.Row) RowOut {
	out := RowOut{Key: BS(r.GetKey())}
	for _, f := range r.GetFamilies() {
		for _, c := range f.GetColumns() {
			for _, cell := range c.GetCells() {
				out.Cells = append(out.Cells, Cell{Fam: f.Name, Qual: BS(c.Qualifier), TS: cell.TimestampMicros, Val: BS(cell.Value), Labels: cell.Labels})
			}
		}
	}
	return out
}

func defFromPB(t *btapb.Table) *TableDef {
	if t == nil {
		return nil
	}
	d := &TableDef{Name: t.Name, Fams: map[string]*GC{}, Gran: int32(t.Granularity)}
	for name, cf := range t.ColumnFamilies {
		d.Fams[name] = GCFromPB(cf.GetGcRule())
	}
	return d
}

// ------------------------------------------------------------------ exec

// wire makes an independent copy of a request the way gRPC does.
func wire[M proto.Message](in M, fresh M) M {
	buf, err := proto.Marshal(in)
	if err != nil {
		panic(HarnessError("request does not marshal (unsound generator): " + err.Error()))
	}
	if err := proto.Unmarshal(buf, fresh); err != nil {
		panic(HarnessError("request does not unmarshal: " + err.Error()))
	}
	return fresh
}

// HarnessError is a panic raised by the harness itself (never a finding).
type HarnessError string

// respCopy marshals the response (what gRPC does right after the handler
// returns) and returns a private copy.
func respCopy[M proto.Message](in M, fresh M) M {
	buf, err := proto.Marshal(in)
	if err != nil {
		panic(fmt.Sprintf("response does not marshal: %v", err))
	}
	if err := proto.Unmarshal(buf, fresh); err != nil {
		panic(err)
	}
	return fresh
}

func setErr(res *Result, err error) {
	if err == nil {
		return
	}
	res.Code = int(status.Code(err))
	if res.Code == 0 {
		res.Code = int(codes.Unknown)
	}
	res.Msg = err.Error()
}

// Exec runs one operation against the server, capturing panics.
func (s *Srv) Exec(op *Op) (res *Result) {
	return s.ExecCtx(context.Background(), op, nil)
}

// ExecCtx: onSend is handed to the ReadRows stream (see ReadStream.OnSend).
func (s *Srv) ExecCtx(ctx context.Context, op *Op, onSend func(n int) error) (res *Result) {
	res = &Result{}
	defer func() {
		if r := recover(); r != nil {
			if he, ok := r.(HarnessError); ok {
				panic("HARNESS: " + string(he))
			}
			res.Panic = fmt.Sprintf("%v\n%s", r, debug.Stack())
		}
	}()
	if op.Clock != nil {
		s.SetClock(*op.Clock)
	}
	name := op.FullName()
	switch op.K {
	case "SetClock":
	case "MutateRow":
		req := wire(&btpb.MutateRowRequest{TableName: name, RowKey: op.Key.B(), Mutations: MutsPB(op.Muts)}, &btpb.MutateRowRequest{})
		resp, err := s.API.MutateRow(ctx, req)
		setErr(res, err)
		if err == nil {
			respCopy(resp, &btpb.MutateRowResponse{})
		}
	case "MutateRows":
		r := &btpb.MutateRowsRequest{TableName: name}
		for _, e := range op.Entries {
			r.Entries = append(r.Entries, &btpb.MutateRowsRequest_Entry{RowKey: e.Key.B(), Mutations: MutsPB(e.Muts)})
		}
		req := wire(r, &btpb.MutateRowsRequest{})
		st := &mutStream{baseStream: baseStream{ctx}}
		err := s.API.MutateRows(req, st)
		setErr(res, err)
		for _, raw := range st.msgs {
			var m btpb.MutateRowsResponse
			if e := proto.Unmarshal(raw, &m); e != nil {
				panic(e)
			}
			for _, en := range m.Entries {
				res.Entries = append(res.Entries, EntryStatus{Index: en.Index, Code: en.GetStatus().GetCode()})
			}
		}
		res.Msgs = len(st.msgs)
	case "CheckAndMutate":
		req := wire(&btpb.CheckAndMutateRowRequest{TableName: name, RowKey: op.Key.B(), PredicateFilter: op.Pred.PB(),
			TrueMutations: MutsPB(op.TMuts), FalseMutations: MutsPB(op.FMuts)}, &btpb.CheckAndMutateRowRequest{})
		resp, err := s.API.CheckAndMutateRow(ctx, req)
		setErr(res, err)
		if err == nil {
			res.Matched = respCopy(resp, &btpb.CheckAndMutateRowResponse{}).PredicateMatched
		}
	case "RMW":
		r := &btpb.ReadModifyWriteRowRequest{TableName: name, RowKey: op.Key.B()}
		for _, ru := range op.Rules {
			r.Rules = append(r.Rules, ru.PB())
		}
		req := wire(r, &btpb.ReadModifyWriteRowRequest{})
		resp, err := s.API.ReadModifyWriteRow(ctx, req)
		setErr(res, err)
		if err == nil {
			c := respCopy(resp, &btpb.ReadModifyWriteRowResponse{})
			res.Rows = []RowOut{rowFromPB(c.Row)}
		}
	case "ReadRows":
		req := wire(&btpb.ReadRowsRequest{TableName: name, Rows: op.Rows.PB(), Filter: op.Filter.PB(), RowsLimit: op.Limit}, &btpb.ReadRowsRequest{})
		st := &ReadStream{baseStream: baseStream{ctx}, OnSend: onSend}
		err := s.API.ReadRows(req, st)
		setErr(res, err)
		res.Rows, res.StreamErr = DecodeRead(st.Msgs)
		res.Msgs = len(st.Msgs)
	case "Sample":
		req := wire(&btpb.SampleRowKeysRequest{TableName: name}, &btpb.SampleRowKeysRequest{})
		st := &sampleStream{baseStream: baseStream{ctx}}
		err := s.API.SampleRowKeys(req, st)
		setErr(res, err)
		for _, raw := range st.msgs {
			var m btpb.SampleRowKeysResponse
			if e := proto.Unmarshal(raw, &m); e != nil {
				panic(e)
			}
			res.Samples = append(res.Samples, SampleKey{Key: BS(m.RowKey), Offset: m.OffsetBytes})
		}
	case "CreateTable":
		r := &btapb.CreateTableRequest{Parent: op.ParentName(), TableId: op.Table}
		if !op.NoTable {
			r.Table = &btapb.Table{}
			if len(op.Fams) > 0 {
				r.Table.ColumnFamilies = map[string]*btapb.ColumnFamily{}
				for _, f := range op.Fams {
					r.Table.ColumnFamilies[f.Name] = &btapb.ColumnFamily{GcRule: f.GC.PB()}
				}
			}
		}
		req := wire(r, &btapb.CreateTableRequest{})
		resp, err := s.API.CreateTable(ctx, req)
		setErr(res, err)
		if err == nil {
			res.Def = defFromPB(respCopy(resp, &btapb.Table{}))
		}
	case "GetTable":
		req := wire(&btapb.GetTableRequest{Name: name}, &btapb.GetTableRequest{})
		resp, err := s.API.GetTable(ctx, req)
		setErr(res, err)
		if err == nil {
			res.Def = defFromPB(respCopy(resp, &btapb.Table{}))
		}
	case "ListTables":
		req := wire(&btapb.ListTablesRequest{Parent: op.ParentName()}, &btapb.ListTablesRequest{})
		resp, err := s.API.ListTables(ctx, req)
		setErr(res, err)
		if err == nil {
			for _, t := range respCopy(resp, &btapb.ListTablesResponse{}).Tables {
				res.Tables = append(res.Tables, t.Name)
			}
			sort.Strings(res.Tables)
		}
	case "DeleteTable":
		req := wire(&btapb.DeleteTableRequest{Name: name}, &btapb.DeleteTableRequest{})
		_, err := s.API.DeleteTable(ctx, req)
		setErr(res, err)
	case "ModifyCF":
		r := &btapb.ModifyColumnFamiliesRequest{Name: name}
		for _, m := range op.Mods {
			r.Modifications = append(r.Modifications, m.PB())
		}
		req := wire(r, &btapb.ModifyColumnFamiliesRequest{})
		resp, err := s.API.ModifyColumnFamilies(ctx, req)
		setErr(res, err)
		if err == nil {
			res.Def = defFromPB(respCopy(resp, &btapb.Table{}))
		}
	case "DropRowRange":
		r := &btapb.DropRowRangeRequest{Name: name}
		if op.All {
			r.Target = &btapb.DropRowRangeRequest_DeleteAllDataFromTable{DeleteAllDataFromTable: true}
		} else if !op.NoTgt {
			r.Target = &btapb.DropRowRangeRequest_RowKeyPrefix{RowKeyPrefix: op.Prefix.B()}
		}
		req := wire(r, &btapb.DropRowRangeRequest{})
		_, err := s.API.DropRowRange(ctx, req)
		setErr(res, err)
	case "GenToken":
		req := wire(&btapb.GenerateConsistencyTokenRequest{Name: name}, &btapb.GenerateConsistencyTokenRequest{})
		resp, err := s.API.GenerateConsistencyToken(ctx, req)
		setErr(res, err)
		if err == nil {
			res.Token = respCopy(resp, &btapb.GenerateConsistencyTokenResponse{}).ConsistencyToken
		}
	case "CheckConsistency":
		req := wire(&btapb.CheckConsistencyRequest{Name: name, ConsistencyToken: op.Token}, &btapb.CheckConsistencyRequest{})
		resp, err := s.API.CheckConsistency(ctx, req)
		setErr(res, err)
		if err == nil {
			res.Consist = respCopy(resp, &btapb.CheckConsistencyResponse{}).Consistent
		}
	case "GC":
		if op.AgeMin > 0 {
			bttest.VerifAgeActivity(s.S, time.Duration(op.AgeMin)*time.Minute)
		}
		bttest.VerifGC(s.S, op.Force)
	default:
		panic("harness: unknown op " + op.K)
	}
	return res
}

// ReadAll is an unfiltered scan of the whole table.
func (s *Srv) ReadAll(parent, table string) *Result {
	return s.Exec(&Op{K: "ReadRows", Parent: parent, Table: table})
}

// ReadKey is an unfiltered read of one row.
func (s *Srv) ReadKey(parent, table string, key BS) *Result {
	return s.Exec(&Op{K: "ReadRows", Parent: parent, Table: table, Rows: &RowSet{Keys: []BS{key}}})
}
