package bt

import (
	"context"
	"fmt"
	"os"
	"runtime/debug"
	"sort"
	"sync/atomic"
	"time"
	"verif/internal/vt"

	"cloud.google.com/go/bigtable"
	btapb "cloud.google.com/go/bigtable/admin/apiv2/adminpb"
	btpb "cloud.google.com/go/bigtable/apiv2/bigtablepb"
	iampb "cloud.google.com/go/iam/apiv1/iampb"
	"github.com/fullstorydev/emulators/bigtable/bttest"
	"google.golang.org/grpc/codes"
	"google.golang.org/grpc/metadata"
	"google.golang.org/grpc/status"
	"google.golang.org/protobuf/proto"
)

var Engines = []string{"btree", "leveldb-mem", "leveldb-disk"}

// Srv is one emulator instance driven by direct calls.
type Srv struct {
	Engine string
	Dir    string // root of the disk engine ("" otherwise)
	S      *bttest.Server
	API    bttest.VerifAPI
	clock  int64
	ownDir bool
	track  *trackStorage
	// Inline: serve on the calling goroutine (scheduler-driven checks identify workers by goroutine).
	Inline bool
}

func storageFor(engine, dir string) bttest.Storage {
	switch engine {
	case "btree":
		return bttest.BtreeStorage{}
	case "leveldb-mem":
		return bttest.LeveldbMemStorage{}
	case "leveldb-disk":
		return bttest.LeveldbDiskStorage{Root: dir}
	}
	panic("unknown engine " + engine)
}

// NewSrv starts an emulator on the given engine. For the disk engine dir is the
// root ("" = a fresh temporary directory removed by Close).
func NewSrv(engine, dir string) (*Srv, error) {
	return NewSrvWrap(engine, dir, nil)
}

func NewSrvWrap(engine, dir string, wrap func(bttest.Storage) bttest.Storage) (s *Srv, err error) {
	s = &Srv{Engine: engine, Dir: dir}
	if engine == "leveldb-disk" && dir == "" {
		d, e := os.MkdirTemp("", "btdisk")
		if e != nil {
			return nil, e
		}
		s.Dir = d
		s.ownDir = true
	}
	defer func() {
		if r := recover(); r != nil {
			err = fmt.Errorf("panic while starting the server: %v\n%s", r, debug.Stack())
		}
	}()
	tr := newTrackStorage(storageFor(engine, s.Dir))
	s.track = &tr
	var st bttest.Storage = tr
	if _, ok := tr.inner.(tableMetaDeleter); ok {
		st = trackStorageMD{tr} // offer DeleteTableMeta exactly when the engine does
	}
	if wrap != nil {
		st = wrap(st)
	}
	srv, e := bttest.NewServerWithOptions("127.0.0.1:0", bttest.Options{
		Storage: st,
		Clock:   func() bigtable.Timestamp { return bigtable.Timestamp(atomic.LoadInt64(&s.clock)) },
	})
	if e != nil {
		return nil, e
	}
	s.S = srv
	s.API = bttest.VerifServices(srv)
	return s, nil
}

func (s *Srv) SetClock(us int64) { atomic.StoreInt64(&s.clock, us) }

// Close stops the server and removes an owned directory.
func (s *Srv) Close() {
	if s.S != nil {
		// bounded: a handler that panicked while holding a server lock (recovered by the harness) would make Close wait forever
		done := make(chan struct{})
		srv := s.S
		go func() {
			defer close(done)
			defer func() { _ = recover() }()
			srv.Close()
		}()
		select {
		case <-done:
			if s.track != nil {
				s.track.closeLeaked()
			}
		case <-time.After(3 * time.Second):
		}
		s.S = nil
	}
	if s.ownDir && s.Dir != "" {
		_ = os.RemoveAll(s.Dir)
	}
}

// ------------------------------------------------------------------ streams

type baseStream struct{ ctx context.Context }

func (b *baseStream) SetHeader(metadata.MD) error  { return nil }
func (b *baseStream) SendHeader(metadata.MD) error { return nil }
func (b *baseStream) SetTrailer(metadata.MD)       {}
func (b *baseStream) Context() context.Context {
	if b.ctx != nil {
		return b.ctx
	}
	return context.Background()
}
func (b *baseStream) SendMsg(m interface{}) error { return nil }
func (b *baseStream) RecvMsg(m interface{}) error { return nil }

// ReadStream collects marshalled ReadRows responses; OnSend (optional) is
// called after each message was marshalled, i.e. while the scan has released
// the table lock.
type ReadStream struct {
	baseStream
	Msgs   [][]byte
	OnSend func(n int) error
}

func (r *ReadStream) Send(m *btpb.ReadRowsResponse) error {
	buf, err := proto.Marshal(m)
	if err != nil {
		return err
	}
	r.Msgs = append(r.Msgs, buf)
	if r.OnSend != nil {
		return r.OnSend(len(r.Msgs))
	}
	return nil
}

type mutStream struct {
	baseStream
	msgs [][]byte
}

func (r *mutStream) Send(m *btpb.MutateRowsResponse) error {
	buf, err := proto.Marshal(m)
	if err != nil {
		return err
	}
	r.msgs = append(r.msgs, buf)
	return nil
}

type sampleStream struct {
	baseStream
	msgs [][]byte
}

func (r *sampleStream) Send(m *btpb.SampleRowKeysResponse) error {
	buf, err := proto.Marshal(m)
	if err != nil {
		return err
	}
	r.msgs = append(r.msgs, buf)
	return nil
}

// ------------------------------------------------------------------ decoding

// DecodeRead turns the marshalled messages into rows, validating the chunk
// stream. The first format error is returned in streamErr.
func DecodeRead(msgs [][]byte) (rows []RowOut, streamErr string) {
	inRow := false
	var cur RowOut
	var fam string
	var qual BS
	haveFam, haveQual := false, false
	fail := func(f string, a ...interface{}) {
		if streamErr == "" {
			streamErr = fmt.Sprintf(f, a...)
		}
	}
	for mi, raw := range msgs {
		var m btpb.ReadRowsResponse
		if err := proto.Unmarshal(raw, &m); err != nil {
			fail("message %d does not unmarshal: %v", mi, err)
			return
		}
		if len(m.Chunks) == 0 {
			fail("message %d has no chunks", mi)
		}
		for ci, ch := range m.Chunks {
			if len(ch.RowKey) > 0 {
				if inRow {
					fail("msg %d chunk %d: row key %q inside uncommitted row %q", mi, ci, ch.RowKey, cur.Key)
				}
				inRow = true
				cur = RowOut{Key: BS(ch.RowKey)}
				haveFam, haveQual = false, false
				if ch.FamilyName == nil || ch.Qualifier == nil {
					fail("msg %d chunk %d: first chunk of row %q lacks family or qualifier", mi, ci, ch.RowKey)
				}
			} else if !inRow {
				fail("msg %d chunk %d: chunk belongs to no row", mi, ci)
				continue
			}
			if ch.FamilyName != nil {
				fam = ch.FamilyName.Value
				haveFam = true
				if ch.Qualifier == nil {
					fail("msg %d chunk %d: family change without qualifier", mi, ci)
				}
			}
			if ch.Qualifier != nil {
				qual = BS(ch.Qualifier.Value)
				haveQual = true
			}
			if !haveFam || !haveQual {
				fail("msg %d chunk %d: cell without family/qualifier context", mi, ci)
			}
			if ch.ValueSize != 0 {
				fail("msg %d chunk %d: split value (value_size=%d) not expected", mi, ci, ch.ValueSize)
			}
			cur.Cells = append(cur.Cells, Cell{Fam: fam, Qual: qual, TS: ch.TimestampMicros, Val: BS(ch.Value), Labels: ch.Labels})
			switch st := ch.RowStatus.(type) {
			case *btpb.ReadRowsResponse_CellChunk_CommitRow:
				if st.CommitRow {
					rows = append(rows, cur)
					inRow = false
				}
			case *btpb.ReadRowsResponse_CellChunk_ResetRow:
				fail("msg %d chunk %d: reset_row", mi, ci)
			}
		}
	}
	if inRow {
		fail("stream ended inside row %q (no commit)", cur.Key)
	}
	return
}

func rowFromPB(r *btpb.Row) RowOut {
	out := RowOut{Key: BS(r.GetKey())}
	for _, f := range r.GetFamilies() {
		for _, c := range f.GetColumns() {
			for _, cell := range c.GetCells() {
				out.Cells = append(out.Cells, Cell{Fam: f.Name, Qual: BS(c.Qualifier), TS: cell.TimestampMicros, Val: BS(cell.Value), Labels: cell.Labels})
			}
		}
	}
	return out
}

func defFromPB(t *btapb.Table) *TableDef {
	if t == nil {
		return nil
	}
	d := &TableDef{Name: t.Name, Fams: map[string]*GC{}, Gran: int32(t.Granularity)}
	for name, cf := range t.ColumnFamilies {
		d.Fams[name] = GCFromPB(cf.GetGcRule())
	}
	return d
}

// ------------------------------------------------------------------ exec

// wire makes an independent copy of a request the way gRPC does.
func wire[M proto.Message](in M, fresh M) M {
	buf, err := proto.Marshal(in)
	if err != nil {
		panic(HarnessError("request does not marshal (unsound generator): " + err.Error()))
	}
	if err := proto.Unmarshal(buf, fresh); err != nil {
		panic(HarnessError("request does not unmarshal: " + err.Error()))
	}
	return fresh
}

// HarnessError is a panic raised by the harness itself (never a finding).
type HarnessError string

// respCopy marshals the response (what gRPC does right after the handler
// returns) and returns a private copy.
func respCopy[M proto.Message](in M, fresh M) M {
	buf, err := proto.Marshal(in)
	if err != nil {
		panic(fmt.Sprintf("response does not marshal: %v", err))
	}
	if err := proto.Unmarshal(buf, fresh); err != nil {
		panic(err)
	}
	return fresh
}

func setErr(res *Result, err error) {
	if err == nil {
		return
	}
	res.Code = int(status.Code(err))
	if res.Code == 0 {
		res.Code = int(codes.Unknown)
	}
	res.Msg = err.Error()
}

// BuildReq turns an operation into (rpc name, request message). ok=false for
// harness-only pseudo operations (SetClock, GC).
func BuildReq(op *Op) (rpc string, msg proto.Message, ok bool) {
	name := op.FullName()
	switch op.K {
	case "MutateRow":
		return "MutateRow", &btpb.MutateRowRequest{TableName: name, RowKey: op.Key.B(), Mutations: MutsPB(op.Muts)}, true
	case "MutateRows":
		r := &btpb.MutateRowsRequest{TableName: name}
		for _, e := range op.Entries {
			r.Entries = append(r.Entries, &btpb.MutateRowsRequest_Entry{RowKey: e.Key.B(), Mutations: MutsPB(e.Muts)})
		}
		return "MutateRows", r, true
	case "CheckAndMutate":
		return "CheckAndMutateRow", &btpb.CheckAndMutateRowRequest{TableName: name, RowKey: op.Key.B(), PredicateFilter: op.Pred.PB(),
			TrueMutations: MutsPB(op.TMuts), FalseMutations: MutsPB(op.FMuts)}, true
	case "RMW":
		r := &btpb.ReadModifyWriteRowRequest{TableName: name, RowKey: op.Key.B()}
		for _, ru := range op.Rules {
			r.Rules = append(r.Rules, ru.PB())
		}
		return "ReadModifyWriteRow", r, true
	case "ReadRows":
		return "ReadRows", &btpb.ReadRowsRequest{TableName: name, Rows: op.Rows.PB(), Filter: op.Filter.PB(), RowsLimit: op.Limit}, true
	case "Sample":
		return "SampleRowKeys", &btpb.SampleRowKeysRequest{TableName: name}, true
	case "CreateTable":
		r := &btapb.CreateTableRequest{Parent: op.ParentName(), TableId: op.Table}
		if !op.NoTable {
			r.Table = &btapb.Table{}
			if len(op.Fams) > 0 {
				r.Table.ColumnFamilies = map[string]*btapb.ColumnFamily{}
				for _, f := range op.Fams {
					r.Table.ColumnFamilies[f.Name] = &btapb.ColumnFamily{GcRule: f.GC.PB()}
				}
			}
		}
		return "CreateTable", r, true
	case "GetTable":
		return "GetTable", &btapb.GetTableRequest{Name: name}, true
	case "ListTables":
		return "ListTables", &btapb.ListTablesRequest{Parent: op.ParentName()}, true
	case "DeleteTable":
		return "DeleteTable", &btapb.DeleteTableRequest{Name: name}, true
	case "ModifyCF":
		r := &btapb.ModifyColumnFamiliesRequest{Name: name}
		for _, m := range op.Mods {
			r.Modifications = append(r.Modifications, m.PB())
		}
		return "ModifyColumnFamilies", r, true
	case "DropRowRange":
		r := &btapb.DropRowRangeRequest{Name: name}
		if op.All {
			r.Target = &btapb.DropRowRangeRequest_DeleteAllDataFromTable{DeleteAllDataFromTable: true}
		} else if !op.NoTgt {
			r.Target = &btapb.DropRowRangeRequest_RowKeyPrefix{RowKeyPrefix: op.Prefix.B()}
		}
		return "DropRowRange", r, true
	case "GenToken":
		return "GenerateConsistencyToken", &btapb.GenerateConsistencyTokenRequest{Name: name}, true
	case "CheckConsistency":
		return "CheckConsistency", &btapb.CheckConsistencyRequest{Name: name, ConsistencyToken: op.Token}, true
	}
	return "", nil, false
}

// RPCs lists the request type of every RPC the harness can call from raw bytes.
var RPCs = map[string]func() proto.Message{
	"MutateRow":                func() proto.Message { return &btpb.MutateRowRequest{} },
	"MutateRows":               func() proto.Message { return &btpb.MutateRowsRequest{} },
	"CheckAndMutateRow":        func() proto.Message { return &btpb.CheckAndMutateRowRequest{} },
	"ReadModifyWriteRow":       func() proto.Message { return &btpb.ReadModifyWriteRowRequest{} },
	"ReadRows":                 func() proto.Message { return &btpb.ReadRowsRequest{} },
	"SampleRowKeys":            func() proto.Message { return &btpb.SampleRowKeysRequest{} },
	"CreateTable":              func() proto.Message { return &btapb.CreateTableRequest{} },
	"GetTable":                 func() proto.Message { return &btapb.GetTableRequest{} },
	"ListTables":               func() proto.Message { return &btapb.ListTablesRequest{} },
	"DeleteTable":              func() proto.Message { return &btapb.DeleteTableRequest{} },
	"ModifyColumnFamilies":     func() proto.Message { return &btapb.ModifyColumnFamiliesRequest{} },
	"DropRowRange":             func() proto.Message { return &btapb.DropRowRangeRequest{} },
	"GenerateConsistencyToken": func() proto.Message { return &btapb.GenerateConsistencyTokenRequest{} },
	"CheckConsistency":         func() proto.Message { return &btapb.CheckConsistencyRequest{} },
	"PingAndWarm":              func() proto.Message { return &btpb.PingAndWarmRequest{} },
	"GetInstance":              func() proto.Message { return &btapb.GetInstanceRequest{} },
	"ListInstances":            func() proto.Message { return &btapb.ListInstancesRequest{} },
	"CreateBackup":             func() proto.Message { return &btapb.CreateBackupRequest{} },
	"GetIamPolicy":             func() proto.Message { return &iampb.GetIamPolicyRequest{} },
}

// RPCNames in a fixed order (for generators / fuzz selectors).
var RPCNames = func() []string {
	var out []string
	for k := range RPCs {
		out = append(out, k)
	}
	sort.Strings(out)
	return out
}()

// ExecRaw calls rpc with a request decoded from payload. ok=false when the
// bytes are not a valid message of that type (gRPC would reject them before
// the service sees them).
func (s *Srv) ExecRaw(ctx context.Context, rpc string, payload []byte) (res *Result, ok bool) {
	mk := RPCs[rpc]
	if mk == nil {
		return nil, false
	}
	msg := mk()
	if err := proto.Unmarshal(payload, msg); err != nil {
		return nil, false
	}
	return s.Call(ctx, rpc, msg, nil), true
}

// Exec runs one operation against the server, capturing panics.
func (s *Srv) Exec(op *Op) (res *Result) {
	return s.ExecCtx(context.Background(), op, nil)
}

// ExecCtx: onSend is handed to the ReadRows stream (see ReadStream.OnSend).
func (s *Srv) ExecCtx(ctx context.Context, op *Op, onSend func(n int) error) (res *Result) {
	if op.Clock != nil {
		s.SetClock(*op.Clock)
	}
	switch op.K {
	case "SetClock":
		return &Result{}
	case "GC":
		res = &Result{}
		defer func() {
			if r := recover(); r != nil {
				res.Panic = fmt.Sprintf("%v\n%s", r, debug.Stack())
			}
		}()
		if op.AgeMin > 0 {
			bttest.VerifAgeActivity(s.S, time.Duration(op.AgeMin)*time.Minute)
		}
		bttest.VerifGC(s.S, op.Force)
		return res
	}
	rpc, msg, ok := BuildReq(op)
	if !ok {
		panic("harness: unknown op " + op.K)
	}
	// what gRPC does: the service sees a freshly unmarshalled copy
	buf, err := proto.Marshal(msg)
	if err != nil {
		panic("HARNESS: request does not marshal (unsound generator): " + err.Error())
	}
	fresh := RPCs[rpc]()
	if err := proto.Unmarshal(buf, fresh); err != nil {
		panic("HARNESS: request does not unmarshal: " + err.Error())
	}
	return s.Call(ctx, rpc, fresh, onSend)
}

// Call invokes the handler of rpc with msg, capturing panics; the response is
// marshalled right after the handler returns (as gRPC does).
func (s *Srv) Call(ctx context.Context, rpc string, msg proto.Message, onSend func(n int) error) (res *Result) {
	if s.Inline || onSend != nil {
		return s.callInline(ctx, rpc, msg, onSend)
	}
	// On its own goroutine, so that a request that never returns (a table lock leaked on an error path, a lock
	// taken twice) is a reported failure and not a wedged check. Callers that park streams on purpose (onSend)
	// and scheduler-driven checks (Inline) have their own detection.
	done := make(chan *Result, 1)
	gid := make(chan int64, 1)
	go func() { gid <- vt.Goid(); done <- s.callInline(ctx, rpc, msg, nil) }()
	id := <-gid
	for round := 0; ; round++ {
		select {
		case r := <-done:
			return r
		case <-time.After(HangAfter):
		}
		// blocked in a lock / channel wait in every sample = hung; anything else = an overloaded machine
		if stuck, states := vt.Stuck(id); stuck {
			return &Result{Panic: fmt.Sprintf("HANG: %s did not return within %s; its goroutine sits in %v", rpc, HangAfter, states)}
		} else if round >= 4 {
			panic(fmt.Sprintf("HARNESS: %s has not returned after %d x %s but is not blocked (states %v): machine too slow to judge", rpc, round+1, HangAfter, states))
		}
	}
}

// HangAfter: a request that has not returned after this long is reported as hung.
var HangAfter = 60 * time.Second

func (s *Srv) callInline(ctx context.Context, rpc string, msg proto.Message, onSend func(n int) error) (res *Result) {
	res = &Result{}
	defer func() {
		if r := recover(); r != nil {
			if he, ok := r.(HarnessError); ok {
				panic("HARNESS: " + string(he))
			}
			res.Panic = fmt.Sprintf("%v\n%s", r, debug.Stack())
		}
	}()
	switch rpc {
	case "MutateRow":
		resp, err := s.API.MutateRow(ctx, msg.(*btpb.MutateRowRequest))
		setErr(res, err)
		if err == nil {
			respCopy(resp, &btpb.MutateRowResponse{})
		}
	case "MutateRows":
		st := &mutStream{baseStream: baseStream{ctx}}
		err := s.API.MutateRows(msg.(*btpb.MutateRowsRequest), st)
		setErr(res, err)
		for _, raw := range st.msgs {
			var m btpb.MutateRowsResponse
			if e := proto.Unmarshal(raw, &m); e != nil {
				panic(e)
			}
			for _, en := range m.Entries {
				res.Entries = append(res.Entries, EntryStatus{Index: en.Index, Code: en.GetStatus().GetCode()})
			}
		}
		res.Msgs = len(st.msgs)
	case "CheckAndMutateRow":
		resp, err := s.API.CheckAndMutateRow(ctx, msg.(*btpb.CheckAndMutateRowRequest))
		setErr(res, err)
		if err == nil {
			res.Matched = respCopy(resp, &btpb.CheckAndMutateRowResponse{}).PredicateMatched
		}
	case "ReadModifyWriteRow":
		resp, err := s.API.ReadModifyWriteRow(ctx, msg.(*btpb.ReadModifyWriteRowRequest))
		setErr(res, err)
		if err == nil {
			c := respCopy(resp, &btpb.ReadModifyWriteRowResponse{})
			res.Rows = []RowOut{rowFromPB(c.Row)}
		}
	case "ReadRows":
		st := &ReadStream{baseStream: baseStream{ctx}, OnSend: onSend}
		err := s.API.ReadRows(msg.(*btpb.ReadRowsRequest), st)
		setErr(res, err)
		res.Rows, res.StreamErr = DecodeRead(st.Msgs)
		res.Msgs = len(st.Msgs)
	case "SampleRowKeys":
		st := &sampleStream{baseStream: baseStream{ctx}}
		err := s.API.SampleRowKeys(msg.(*btpb.SampleRowKeysRequest), st)
		setErr(res, err)
		for _, raw := range st.msgs {
			var m btpb.SampleRowKeysResponse
			if e := proto.Unmarshal(raw, &m); e != nil {
				panic(e)
			}
			res.Samples = append(res.Samples, SampleKey{Key: BS(m.RowKey), Offset: m.OffsetBytes})
		}
	case "CreateTable":
		resp, err := s.API.CreateTable(ctx, msg.(*btapb.CreateTableRequest))
		setErr(res, err)
		if err == nil {
			res.Def = defFromPB(respCopy(resp, &btapb.Table{}))
		}
	case "GetTable":
		resp, err := s.API.GetTable(ctx, msg.(*btapb.GetTableRequest))
		setErr(res, err)
		if err == nil {
			res.Def = defFromPB(respCopy(resp, &btapb.Table{}))
		}
	case "ListTables":
		resp, err := s.API.ListTables(ctx, msg.(*btapb.ListTablesRequest))
		setErr(res, err)
		if err == nil {
			for _, t := range respCopy(resp, &btapb.ListTablesResponse{}).Tables {
				res.Tables = append(res.Tables, t.Name)
			}
			sort.Strings(res.Tables)
		}
	case "DeleteTable":
		_, err := s.API.DeleteTable(ctx, msg.(*btapb.DeleteTableRequest))
		setErr(res, err)
	case "ModifyColumnFamilies":
		resp, err := s.API.ModifyColumnFamilies(ctx, msg.(*btapb.ModifyColumnFamiliesRequest))
		setErr(res, err)
		if err == nil {
			res.Def = defFromPB(respCopy(resp, &btapb.Table{}))
		}
	case "DropRowRange":
		_, err := s.API.DropRowRange(ctx, msg.(*btapb.DropRowRangeRequest))
		setErr(res, err)
	case "GenerateConsistencyToken":
		resp, err := s.API.GenerateConsistencyToken(ctx, msg.(*btapb.GenerateConsistencyTokenRequest))
		setErr(res, err)
		if err == nil {
			res.Token = respCopy(resp, &btapb.GenerateConsistencyTokenResponse{}).ConsistencyToken
		}
	case "CheckConsistency":
		resp, err := s.API.CheckConsistency(ctx, msg.(*btapb.CheckConsistencyRequest))
		setErr(res, err)
		if err == nil {
			res.Consist = respCopy(resp, &btapb.CheckConsistencyResponse{}).Consistent
		}
	case "PingAndWarm":
		_, err := s.API.PingAndWarm(ctx, msg.(*btpb.PingAndWarmRequest))
		setErr(res, err)
	case "GetInstance":
		_, err := s.API.GetInstance(ctx, msg.(*btapb.GetInstanceRequest))
		setErr(res, err)
	case "ListInstances":
		_, err := s.API.ListInstances(ctx, msg.(*btapb.ListInstancesRequest))
		setErr(res, err)
	case "CreateBackup":
		_, err := s.API.CreateBackup(ctx, msg.(*btapb.CreateBackupRequest))
		setErr(res, err)
	case "GetIamPolicy":
		_, err := s.API.GetIamPolicy(ctx, msg.(*iampb.GetIamPolicyRequest))
		setErr(res, err)
	default:
		panic("harness: unknown rpc " + rpc)
	}
	return res
}

// ReadAll is an unfiltered scan of the whole table.
func (s *Srv) ReadAll(parent, table string) *Result {
	return s.Exec(&Op{K: "ReadRows", Parent: parent, Table: table})
}

// ReadKey is an unfiltered read of one row.
func (s *Srv) ReadKey(parent, table string, key BS) *Result {
	return s.Exec(&Op{K: "ReadRows", Parent: parent, Table: table, Rows: &RowSet{Keys: []BS{key}}})
}
