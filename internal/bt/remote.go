package bt

import (
	"context"
	"fmt"
	"io"
	"sort"
	"time"

	btapb "cloud.google.com/go/bigtable/admin/apiv2/adminpb"
	btpb "cloud.google.com/go/bigtable/apiv2/bigtablepb"
	"google.golang.org/grpc"
	"google.golang.org/grpc/credentials/insecure"
	"google.golang.org/protobuf/proto"
)

// Remote drives a real cbtemulator process over gRPC with the same operation language.
type Remote struct {
	Conn  *grpc.ClientConn
	Data  btpb.BigtableClient
	Admin btapb.BigtableTableAdminClient
}

func DialRemote(addr string, wait time.Duration) (*Remote, error) {
	conn, err := grpc.NewClient(addr, grpc.WithTransportCredentials(insecure.NewCredentials()))
	if err != nil {
		return nil, err
	}
	r := &Remote{Conn: conn, Data: btpb.NewBigtableClient(conn), Admin: btapb.NewBigtableTableAdminClient(conn)}
	deadline := time.Now().Add(wait)
	for {
		ctx, cancel := context.WithTimeout(context.Background(), 300*time.Millisecond)
		_, err := r.Admin.ListTables(ctx, &btapb.ListTablesRequest{Parent: DefaultParent})
		cancel()
		if err == nil {
			return r, nil
		}
		if time.Now().After(deadline) {
			conn.Close()
			return nil, fmt.Errorf("emulator at %s did not become ready: %v", addr, err)
		}
		time.Sleep(10 * time.Millisecond)
	}
}

func (r *Remote) Close() { _ = r.Conn.Close() }

// Exec runs one operation over gRPC. A transport failure (process killed) is reported in Result.Msg with Code -1.
func (r *Remote) Exec(ctx context.Context, op *Op) *Result {
	res := &Result{}
	_, msg, ok := BuildReq(op)
	if !ok {
		panic("remote: unsupported op " + op.K)
	}
	fail := func(err error) {
		if err != nil {
			setErr(res, err)
		}
	}
	switch m := msg.(type) {
	case *btpb.MutateRowRequest:
		_, err := r.Data.MutateRow(ctx, m)
		fail(err)
	case *btpb.MutateRowsRequest:
		st, err := r.Data.MutateRows(ctx, m)
		if err != nil {
			fail(err)
			break
		}
		for {
			resp, err := st.Recv()
			if err == io.EOF {
				break
			}
			if err != nil {
				fail(err)
				break
			}
			for _, en := range resp.Entries {
				res.Entries = append(res.Entries, EntryStatus{Index: en.Index, Code: en.GetStatus().GetCode()})
			}
		}
	case *btpb.CheckAndMutateRowRequest:
		resp, err := r.Data.CheckAndMutateRow(ctx, m)
		fail(err)
		if err == nil {
			res.Matched = resp.PredicateMatched
		}
	case *btpb.ReadModifyWriteRowRequest:
		resp, err := r.Data.ReadModifyWriteRow(ctx, m)
		fail(err)
		if err == nil {
			res.Rows = []RowOut{rowFromPB(resp.Row)}
		}
	case *btpb.ReadRowsRequest:
		st, err := r.Data.ReadRows(ctx, m)
		if err != nil {
			fail(err)
			break
		}
		var msgs [][]byte
		for {
			resp, err := st.Recv()
			if err == io.EOF {
				break
			}
			if err != nil {
				fail(err)
				break
			}
			buf, _ := proto.Marshal(resp)
			msgs = append(msgs, buf)
		}
		res.Rows, res.StreamErr = DecodeRead(msgs)
		res.Msgs = len(msgs)
	case *btapb.CreateTableRequest:
		resp, err := r.Admin.CreateTable(ctx, m)
		fail(err)
		if err == nil {
			res.Def = defFromPB(resp)
		}
	case *btapb.GetTableRequest:
		resp, err := r.Admin.GetTable(ctx, m)
		fail(err)
		if err == nil {
			res.Def = defFromPB(resp)
		}
	case *btapb.ListTablesRequest:
		resp, err := r.Admin.ListTables(ctx, m)
		fail(err)
		if err == nil {
			for _, t := range resp.Tables {
				res.Tables = append(res.Tables, t.Name)
			}
			sort.Strings(res.Tables)
		}
	case *btapb.DeleteTableRequest:
		_, err := r.Admin.DeleteTable(ctx, m)
		fail(err)
	case *btapb.ModifyColumnFamiliesRequest:
		resp, err := r.Admin.ModifyColumnFamilies(ctx, m)
		fail(err)
		if err == nil {
			res.Def = defFromPB(resp)
		}
	case *btapb.DropRowRangeRequest:
		_, err := r.Admin.DropRowRange(ctx, m)
		fail(err)
	default:
		panic(fmt.Sprintf("remote: unsupported request %T", msg))
	}
	return res
}

// Execer is anything that can run operations: the in-process *Srv or a RemoteExec.
type Execer interface {
	Exec(op *Op) *Result
}

// RemoteExec adapts Remote to Execer with a per-call timeout.
type RemoteExec struct {
	R       *Remote
	Timeout time.Duration
}

func (x RemoteExec) Exec(op *Op) *Result {
	ctx, cancel := context.WithTimeout(context.Background(), x.Timeout)
	defer cancel()
	return x.R.Exec(ctx, op)
}

// ScanAll is an unfiltered scan of the whole table through any Execer.
func ScanAll(x Execer, parent, table string) *Result {
	return x.Exec(&Op{K: "ReadRows", Parent: parent, Table: table})
}
