package bt

import (
	btapb "cloud.google.com/go/bigtable/admin/apiv2/adminpb"
	btpb "cloud.google.com/go/bigtable/apiv2/bigtablepb"
	"github.com/fullstorydev/emulators/bigtable/bttest"
)

// YieldStorage decorates a storage engine (public extension point
// bttest.Options.Storage): Y is called before every row-store access, which
// makes each of them a scheduling point of the controlled scheduler.
type YieldStorage struct {
	Inner bttest.Storage
	Y     func(point string)
}

func (s YieldStorage) Create(tbl *btapb.Table) bttest.Rows {
	return &yieldRows{inner: s.Inner.Create(tbl), y: s.Y}
}
func (s YieldStorage) GetTables() []*btapb.Table { return s.Inner.GetTables() }
func (s YieldStorage) Open(tbl *btapb.Table) bttest.Rows {
	return &yieldRows{inner: s.Inner.Open(tbl), y: s.Y}
}
func (s YieldStorage) SetTableMeta(tbl *btapb.Table) { s.Inner.SetTableMeta(tbl) }

type yieldRows struct {
	inner bttest.Rows
	y     func(point string)
}

func (r *yieldRows) it(f bttest.RowIterator) bttest.RowIterator {
	return func(row *btpb.Row) bool {
		r.y("rows.iter")
		return f(row)
	}
}
func (r *yieldRows) Ascend(f bttest.RowIterator) { r.y("rows.Ascend"); r.inner.Ascend(r.it(f)) }
func (r *yieldRows) AscendRange(a, b []byte, f bttest.RowIterator) {
	r.y("rows.AscendRange")
	r.inner.AscendRange(a, b, r.it(f))
}
func (r *yieldRows) AscendLessThan(b []byte, f bttest.RowIterator) {
	r.y("rows.AscendLessThan")
	r.inner.AscendLessThan(b, r.it(f))
}
func (r *yieldRows) AscendGreaterOrEqual(a []byte, f bttest.RowIterator) {
	r.y("rows.AscendGreaterOrEqual")
	r.inner.AscendGreaterOrEqual(a, r.it(f))
}
func (r *yieldRows) Clear()            { r.y("rows.Clear"); r.inner.Clear() }
func (r *yieldRows) Delete(key []byte) { r.y("rows.Delete"); r.inner.Delete(key) }
func (r *yieldRows) Get(key []byte) *btpb.Row {
	r.y("rows.Get")
	return r.inner.Get(key)
}
func (r *yieldRows) ReplaceOrInsert(row *btpb.Row) {
	r.y("rows.ReplaceOrInsert")
	r.inner.ReplaceOrInsert(row)
}
func (r *yieldRows) Close() { r.inner.Close() }
