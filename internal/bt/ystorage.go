package bt

import (
	"sync"

	btapb "cloud.google.com/go/bigtable/admin/apiv2/adminpb"
	btpb "cloud.google.com/go/bigtable/apiv2/bigtablepb"
	"github.com/fullstorydev/emulators/bigtable/bttest"
)

// YieldStorage decorates a storage engine (public extension point
// bttest.Options.Storage): Y is called before every row-store access, which
// makes each of them a scheduling point of the controlled scheduler.
type YieldStorage struct {
	Inner bttest.Storage
	Y     func(point string)
}

func (s YieldStorage) Create(tbl *btapb.Table) bttest.Rows {
	return &yieldRows{inner: s.Inner.Create(tbl), y: s.Y}
}
func (s YieldStorage) GetTables() []*btapb.Table { return s.Inner.GetTables() }
func (s YieldStorage) Open(tbl *btapb.Table) bttest.Rows {
	return &yieldRows{inner: s.Inner.Open(tbl), y: s.Y}
}
func (s YieldStorage) SetTableMeta(tbl *btapb.Table) { s.Inner.SetTableMeta(tbl) }

// tableMetaDeleter is the optional interface of storage layers that persist
// table metadata. A wrapper must offer it exactly when the wrapped storage
// does: the emulator asks for it by type assertion, and a wrapper that always
// had the method would make every engine look persistent.
type tableMetaDeleter interface {
	DeleteTableMeta(*btapb.Table)
}

type yieldStorageMD struct{ YieldStorage }

func (s yieldStorageMD) DeleteTableMeta(tbl *btapb.Table) {
	s.Inner.(tableMetaDeleter).DeleteTableMeta(tbl)
}

// WrapYield wraps in with yield points, preserving its optional interface.
func WrapYield(in bttest.Storage, y func(point string)) bttest.Storage {
	w := YieldStorage{Inner: in, Y: y}
	if _, ok := in.(tableMetaDeleter); ok {
		return yieldStorageMD{w}
	}
	return w
}

type yieldRows struct {
	inner bttest.Rows
	y     func(point string)
}

func (r *yieldRows) it(f bttest.RowIterator) bttest.RowIterator {
	return func(row *btpb.Row) bool {
		r.y("rows.iter")
		return f(row)
	}
}
func (r *yieldRows) Ascend(f bttest.RowIterator) { r.y("rows.Ascend"); r.inner.Ascend(r.it(f)) }
func (r *yieldRows) AscendRange(a, b []byte, f bttest.RowIterator) {
	r.y("rows.AscendRange")
	r.inner.AscendRange(a, b, r.it(f))
}
func (r *yieldRows) AscendLessThan(b []byte, f bttest.RowIterator) {
	r.y("rows.AscendLessThan")
	r.inner.AscendLessThan(b, r.it(f))
}
func (r *yieldRows) AscendGreaterOrEqual(a []byte, f bttest.RowIterator) {
	r.y("rows.AscendGreaterOrEqual")
	r.inner.AscendGreaterOrEqual(a, r.it(f))
}
func (r *yieldRows) Clear()            { r.y("rows.Clear"); r.inner.Clear() }
func (r *yieldRows) Delete(key []byte) { r.y("rows.Delete"); r.inner.Delete(key) }
func (r *yieldRows) Get(key []byte) *btpb.Row {
	r.y("rows.Get")
	return r.inner.Get(key)
}
func (r *yieldRows) ReplaceOrInsert(row *btpb.Row) {
	r.y("rows.ReplaceOrInsert")
	r.inner.ReplaceOrInsert(row)
}
func (r *yieldRows) Close() { r.inner.Close() }

// trackStorage remembers every Rows object the engine hands out, so that the
// harness can close the ones the server forgets (a deleted table's storage is
// never closed by the emulator; with thousands of cases per process that
// leaks gigabytes of leveldb buffers).
type trackStorage struct {
	inner bttest.Storage
	mu    *sync.Mutex
	open  *[]*trackRows
}

func newTrackStorage(inner bttest.Storage) trackStorage {
	return trackStorage{inner: inner, mu: &sync.Mutex{}, open: &[]*trackRows{}}
}

func (s trackStorage) track(r bttest.Rows) bttest.Rows {
	t := &trackRows{Rows: r}
	s.mu.Lock()
	*s.open = append(*s.open, t)
	s.mu.Unlock()
	return t
}
func (s trackStorage) Create(tbl *btapb.Table) bttest.Rows { return s.track(s.inner.Create(tbl)) }
func (s trackStorage) GetTables() []*btapb.Table           { return s.inner.GetTables() }
func (s trackStorage) Open(tbl *btapb.Table) bttest.Rows   { return s.track(s.inner.Open(tbl)) }
func (s trackStorage) SetTableMeta(tbl *btapb.Table)       { s.inner.SetTableMeta(tbl) }

type trackStorageMD struct{ trackStorage }

func (s trackStorageMD) DeleteTableMeta(tbl *btapb.Table) {
	s.inner.(tableMetaDeleter).DeleteTableMeta(tbl)
}

// closeLeaked closes every Rows object that the server did not close itself.
func (s trackStorage) closeLeaked() {
	s.mu.Lock()
	defer s.mu.Unlock()
	for _, t := range *s.open {
		if !t.closed {
			func() {
				defer func() { _ = recover() }()
				t.closed = true
				t.Rows.Close()
			}()
		}
	}
	*s.open = nil
}

type trackRows struct {
	bttest.Rows
	closed bool
}

func (t *trackRows) Close() {
	if !t.closed {
		t.closed = true
		t.Rows.Close()
	}
}
