package bt

import (
	"bytes"
	"encoding/binary"
	"fmt"
	"sort"
	"strings"
)

// Reference model of the Bigtable data model. Nothing here calls emulator code.

// MRow: family -> qualifier -> timestamp -> value.
type MRow map[string]map[string]map[int64]string

func (r MRow) Clone() MRow {
	out := MRow{}
	for f, qs := range r {
		out[f] = map[string]map[int64]string{}
		for q, cs := range qs {
			m := make(map[int64]string, len(cs))
			for ts, v := range cs {
				m[ts] = v
			}
			out[f][q] = m
		}
	}
	return out
}

func (r MRow) prune() {
	for f, qs := range r {
		for q, cs := range qs {
			if len(cs) == 0 {
				delete(qs, q)
			}
		}
		if len(qs) == 0 {
			delete(r, f)
		}
	}
}

func (r MRow) Empty() bool {
	for _, qs := range r {
		for _, cs := range qs {
			if len(cs) > 0 {
				return false
			}
		}
	}
	return true
}

func (r MRow) NumCells() int {
	n := 0
	for _, qs := range r {
		for _, cs := range qs {
			n += len(cs)
		}
	}
	return n
}

// Cells in canonical order: family ascending, qualifier ascending, timestamp descending.
func (r MRow) Cells() []Cell {
	var out []Cell
	for f, qs := range r {
		for q, cs := range qs {
			for ts, v := range cs {
				out = append(out, Cell{Fam: f, Qual: BS(q), TS: ts, Val: BS(v)})
			}
		}
	}
	SortCells(out)
	return out
}

func SortCells(cs []Cell) {
	sort.SliceStable(cs, func(i, j int) bool {
		a, b := &cs[i], &cs[j]
		if a.Fam != b.Fam {
			return a.Fam < b.Fam
		}
		if a.Qual != b.Qual {
			return a.Qual < b.Qual
		}
		if a.TS != b.TS {
			return a.TS > b.TS
		}
		if a.Val != b.Val {
			return a.Val < b.Val
		}
		return strings.Join(a.Labels, ",") < strings.Join(b.Labels, ",")
	})
}

func (r MRow) set(f, q string, ts int64, v string) {
	if r[f] == nil {
		r[f] = map[string]map[int64]string{}
	}
	if r[f][q] == nil {
		r[f][q] = map[int64]string{}
	}
	r[f][q][ts] = v
}

// newest returns the newest cell of a column.
func (r MRow) newest(f, q string) (ts int64, v string, ok bool) {
	for t, val := range r[f][q] {
		if !ok || t > ts {
			ts, v, ok = t, val, true
		}
	}
	return
}

type MTable struct {
	Fams map[string]*GC
	Rows map[string]MRow
}

func (t *MTable) NumCells() int {
	n := 0
	for _, r := range t.Rows {
		n += r.NumCells()
	}
	return n
}

func (t *MTable) Keys() []string {
	ks := make([]string, 0, len(t.Rows))
	for k := range t.Rows {
		ks = append(ks, k)
	}
	sort.Strings(ks)
	return ks
}

type Model struct {
	Tables map[string]*MTable // by full name
	Clock  int64
}

func NewModel() *Model { return &Model{Tables: map[string]*MTable{}} }

func (m *Model) Clone() *Model {
	out := NewModel()
	out.Clock = m.Clock
	for n, t := range m.Tables {
		nt := &MTable{Fams: map[string]*GC{}, Rows: map[string]MRow{}}
		for f, g := range t.Fams {
			nt.Fams[f] = g
		}
		for k, r := range t.Rows {
			nt.Rows[k] = r.Clone()
		}
		out.Tables[n] = nt
	}
	return out
}

// ------------------------------------------------------------------ mutations

type Verdict int

const (
	VOK     Verdict = iota // must succeed
	VErr                   // must be answered with an error, nothing stored
	VEither                // the API text does not decide (e.g. empty list); both accepted
)

func ValidTS(ts int64) bool { return ts >= 0 && ts <= MaxTS && ts%1000 == 0 }

func ServerTime(nowUS int64) int64 { return nowUS - nowUS%1000 }

// ApplyMuts applies the list to a copy of row. With VEither the returned row is
// the state if the request is accepted.
func ApplyMuts(fams map[string]*GC, row MRow, muts []Mut, nowUS int64) (MRow, Verdict) {
	r := row.Clone()
	v := VOK
	if len(muts) == 0 {
		v = VEither
	}
	for _, m := range muts {
		switch m.K {
		case "set":
			if _, ok := fams[m.Fam]; !ok {
				return nil, VErr
			}
			ts := m.TS
			if ts == -1 {
				ts = ServerTime(nowUS)
			}
			if !ValidTS(ts) {
				return nil, VErr
			}
			r.set(m.Fam, string(m.Qual), ts, string(m.Val))
		case "delcol":
			if _, ok := fams[m.Fam]; !ok {
				return nil, VErr
			}
			if m.Range {
				if !ValidTS(m.Start) || (m.End != 0 && !ValidTS(m.End)) {
					return nil, VErr
				}
				if m.End != 0 && m.Start > m.End {
					return nil, VErr
				}
				if m.End != 0 && m.Start == m.End {
					// empty interval: rejected by some implementations, a no-op for others
					v = VEither
					continue
				}
				for ts := range r[m.Fam][string(m.Qual)] {
					if ts >= m.Start && (m.End == 0 || ts < m.End) {
						delete(r[m.Fam][string(m.Qual)], ts)
					}
				}
			} else if r[m.Fam] != nil {
				delete(r[m.Fam], string(m.Qual))
			}
		case "delfam":
			if _, ok := fams[m.Fam]; !ok {
				return nil, VErr
			}
			delete(r, m.Fam)
		case "delrow":
			for f := range r {
				delete(r, f)
			}
		default:
			return nil, VErr
		}
	}
	r.prune()
	return r, v
}

// ApplyRMW applies the rules; returns the new row, the cells the response must
// carry, and the verdict.
func ApplyRMW(fams map[string]*GC, row MRow, rules []RMWRule, nowUS int64) (MRow, []Cell, Verdict) {
	r := row.Clone()
	v := VOK
	if len(rules) == 0 {
		v = VEither
	}
	type ck struct{ f, q string }
	written := map[ck]int64{}
	for _, ru := range rules {
		if _, ok := fams[ru.Fam]; !ok || ru.Unset {
			return nil, nil, VErr
		}
		ts := ServerTime(nowUS)
		pts, pv, have := r.newest(ru.Fam, string(ru.Qual))
		if have && pts > ts {
			ts = pts
		}
		var nv string
		if ru.Inc {
			var cur int64
			if have {
				if len(pv) == 0 {
					// an existing cell with an empty value: "fails" or "counts as 0" (text is silent)
					v = VEither
				} else if len(pv) != 8 {
					return nil, nil, VErr
				} else {
					cur = int64(binary.BigEndian.Uint64([]byte(pv)))
				}
			}
			var buf [8]byte
			binary.BigEndian.PutUint64(buf[:], uint64(cur+ru.Amount))
			nv = string(buf[:])
		} else {
			nv = pv + string(ru.Append)
		}
		r.set(ru.Fam, string(ru.Qual), ts, nv)
		written[ck{ru.Fam, string(ru.Qual)}] = ts
	}
	var resp []Cell
	for k, ts := range written {
		resp = append(resp, Cell{Fam: k.f, Qual: BS(k.q), TS: ts, Val: BS(r[k.f][k.q][ts])})
	}
	SortCells(resp)
	return r, resp, v
}

// ------------------------------------------------------------------ comparing rows

// CheckShape validates the cell order of one streamed row: each family one
// contiguous block, qualifiers strictly ascending inside a family, timestamps
// descending inside a column (strictly when strict).
func CheckShape(r RowOut, strict bool) string {
	if len(r.Cells) == 0 {
		return fmt.Sprintf("row %q has no cells", r.Key)
	}
	seenFam := map[string]bool{}
	for i := range r.Cells {
		c := &r.Cells[i]
		if i == 0 {
			seenFam[c.Fam] = true
			continue
		}
		p := &r.Cells[i-1]
		switch {
		case c.Fam != p.Fam:
			if seenFam[c.Fam] {
				return fmt.Sprintf("row %q: family %q appears twice", r.Key, c.Fam)
			}
			seenFam[c.Fam] = true
		case c.Qual != p.Qual:
			if !(p.Qual < c.Qual) {
				return fmt.Sprintf("row %q family %q: qualifier %q after %q (not ascending)", r.Key, c.Fam, c.Qual, p.Qual)
			}
		default:
			if c.TS > p.TS || (strict && c.TS == p.TS) {
				return fmt.Sprintf("row %q %s:%q: timestamp %d after %d (not descending)", r.Key, c.Fam, c.Qual, c.TS, p.TS)
			}
		}
	}
	return ""
}

func fmtCells(cs []Cell) string {
	var sb strings.Builder
	for i, c := range cs {
		if i > 0 {
			sb.WriteString(" ")
		}
		fmt.Fprintf(&sb, "%s:%q@%d=%q", c.Fam, string(c.Qual), c.TS, string(c.Val))
		if len(c.Labels) > 0 {
			fmt.Fprintf(&sb, "%v", c.Labels)
		}
	}
	return "[" + sb.String() + "]"
}

// SameCells compares two cell lists as multisets.
func SameCells(got, want []Cell) string {
	g := append([]Cell(nil), got...)
	w := append([]Cell(nil), want...)
	SortCells(g)
	SortCells(w)
	if len(g) != len(w) {
		return fmt.Sprintf("got %d cells %s, want %d cells %s", len(g), fmtCells(g), len(w), fmtCells(w))
	}
	for i := range g {
		if g[i].Fam != w[i].Fam || g[i].Qual != w[i].Qual || g[i].TS != w[i].TS || g[i].Val != w[i].Val ||
			strings.Join(g[i].Labels, ",") != strings.Join(w[i].Labels, ",") {
			return fmt.Sprintf("got %s, want %s", fmtCells(g), fmtCells(w))
		}
	}
	return ""
}

// CompareRows: got must be exactly the wanted rows in the wanted order.
func CompareRows(got, want []RowOut, strict bool) string {
	for i := range got {
		if s := CheckShape(got[i], strict); s != "" {
			return s
		}
	}
	if len(got) != len(want) {
		return fmt.Sprintf("got %d rows %v, want %d rows %v", len(got), rowKeys(got), len(want), rowKeys(want))
	}
	for i := range got {
		if got[i].Key != want[i].Key {
			return fmt.Sprintf("row %d: got key %q, want %q (got %v want %v)", i, got[i].Key, want[i].Key, rowKeys(got), rowKeys(want))
		}
		if s := SameCells(got[i].Cells, want[i].Cells); s != "" {
			return fmt.Sprintf("row %q: %s", got[i].Key, s)
		}
	}
	return ""
}

func rowKeys(rs []RowOut) []string {
	out := make([]string, len(rs))
	for i := range rs {
		out[i] = fmt.Sprintf("%q", string(rs[i].Key))
	}
	return out
}

// ------------------------------------------------------------------ row sets

// RowSetVerdict classifies the RowSet and returns the membership predicate.
func RowSetVerdict(rs *RowSet) (v Verdict, member func(k []byte) bool) {
	if rs == nil || (len(rs.Keys) == 0 && len(rs.Ranges) == 0) {
		return VOK, func([]byte) bool { return true }
	}
	v = VOK
	for _, r := range rs.Ranges {
		if r.S.K != 0 && r.E.K != 0 {
			c := bytes.Compare(r.S.V.B(), r.E.V.B())
			if c > 0 {
				return VErr, nil
			}
			// c == 0 with an open end is an empty range: C03 counts empty ranges among the row sets whose union is
			// served ("a range whose start EXCEEDS its end is rejected"), so it is accepted and contributes nothing
		}
	}
	return v, func(k []byte) bool {
		for _, x := range rs.Keys {
			if bytes.Equal(k, x.B()) {
				return true
			}
		}
		for _, r := range rs.Ranges {
			ok := true
			switch r.S.K {
			case 1:
				ok = bytes.Compare(k, r.S.V.B()) > 0
			case 2:
				ok = bytes.Compare(k, r.S.V.B()) >= 0
			}
			if !ok {
				continue
			}
			switch r.E.K {
			case 1:
				ok = bytes.Compare(k, r.E.V.B()) < 0
			case 2:
				ok = bytes.Compare(k, r.E.V.B()) <= 0
			}
			if ok {
				return true
			}
		}
		return false
	}
}

// ------------------------------------------------------------------ expected reads

// ReadExpect is what a ReadRows call may return.
type ReadExpect struct {
	NotFound    bool
	RowSetErr   Verdict  // VErr: must be InvalidArgument; VEither: InvalidArgument also fine
	Rows        []RowOut // expected rows, in order, up to the first hard-invalid row
	HardInvalid bool     // the evaluation reached an invalid filter node on a row with cells
	SoftInvalid bool     // InvalidArgument is acceptable too (invalid node never reached / zero count)
	Unspec      bool     // documentation does not fix the result; only "no crash, OK or InvalidArgument"
}

// ExpectRead computes the expectation from candidate rows (all rows of the
// table in key order, cells in the order filters see them). famAmbiguous says
// whether the family order of the candidates is unknown.
func ExpectRead(cands []RowOut, rs *RowSet, f *Filter, limit int64, famAmbiguous bool, sample func(key BS, n int) []bool) ReadExpect {
	var e ReadExpect
	v, member := RowSetVerdict(rs)
	e.RowSetErr = v
	if v == VErr {
		return e
	}
	if StaticInvalid(f) {
		e.SoftInvalid = true
	}
	n := int64(0)
	for _, r := range cands {
		if !member(r.Key.B()) {
			continue
		}
		if limit > 0 && n >= limit {
			break
		}
		cells := r.Cells
		if f != nil {
			var sm []bool
			if sample != nil {
				sm = sample(r.Key, CountSampleNodes(f))
			}
			er := evalFilterAmb(f, r.Key, r.Cells, sm, famAmbiguous)
			if er.Unspec {
				e.Unspec = true
			}
			if er.ZeroCount {
				e.SoftInvalid = true
			}
			if er.Status == EvInvalid {
				e.HardInvalid = true
				return e
			}
			cells = er.Cells
		}
		if len(cells) == 0 {
			continue
		}
		e.Rows = append(e.Rows, RowOut{Key: r.Key, Cells: cells})
		n++
	}
	return e
}

func evalFilterAmb(f *Filter, key BS, cells []Cell, sample []bool, amb bool) EvalResult {
	st := &evalState{key: key.B(), sample: sample}
	in := make([]Cell, len(cells))
	copy(in, cells)
	out := st.eval(f, in, amb)
	if st.status == EvInvalid {
		out = nil
	}
	return EvalResult{Cells: out, Status: st.status, Unspec: st.unspec, ZeroCount: st.zeroCount, Samples: st.sampleIdx}
}

const (
	CodeOK         = 0
	CodeInvalidArg = 3
	CodeNotFound   = 5
	CodeExists     = 6
)

// Check compares a ReadRows result with the expectation. strict: timestamps of
// a column must be strictly descending (no interleave involved).
func (e *ReadExpect) Check(got *Result, strict bool) string {
	if got.Panic != "" {
		return "panic: " + got.Panic
	}
	if got.StreamErr != "" {
		return "malformed chunk stream: " + got.StreamErr
	}
	for i := 1; i < len(got.Rows); i++ {
		if !(got.Rows[i-1].Key < got.Rows[i].Key) {
			return fmt.Sprintf("rows not in strictly ascending key order: %q then %q", got.Rows[i-1].Key, got.Rows[i].Key)
		}
	}
	if e.NotFound {
		if got.Code != CodeNotFound {
			return fmt.Sprintf("want NotFound, got code %d (%s)", got.Code, got.Msg)
		}
		return ""
	}
	if e.RowSetErr == VErr {
		if got.Code != CodeInvalidArg {
			return fmt.Sprintf("inverted range: want InvalidArgument, got code %d with %d rows", got.Code, len(got.Rows))
		}
		if len(got.Rows) != 0 {
			return "rows returned together with InvalidArgument for an inverted range"
		}
		return ""
	}
	if e.Unspec {
		if got.Code != CodeOK && got.Code != CodeInvalidArg {
			return fmt.Sprintf("want OK or InvalidArgument, got code %d (%s)", got.Code, got.Msg)
		}
		return ""
	}
	if got.Code == CodeInvalidArg {
		if !(e.HardInvalid || e.SoftInvalid || e.RowSetErr == VEither) {
			return fmt.Sprintf("unexpected InvalidArgument (%s); want %d rows", got.Msg, len(e.Rows))
		}
		// rows streamed before the error must be a prefix of the expectation
		if len(got.Rows) > len(e.Rows) {
			return fmt.Sprintf("InvalidArgument after %d rows, but only %d rows precede the invalid one", len(got.Rows), len(e.Rows))
		}
		return CompareRows(got.Rows, e.Rows[:len(got.Rows)], strict)
	}
	if got.Code != CodeOK {
		return fmt.Sprintf("unexpected status %d (%s)", got.Code, got.Msg)
	}
	if e.HardInvalid {
		return fmt.Sprintf("invalid filter argument was ignored: got OK with %d rows, want InvalidArgument", len(got.Rows))
	}
	return CompareRows(got.Rows, e.Rows, strict)
}

// Candidates: the model's rows as read candidates (canonical cell order).
func (t *MTable) Candidates() []RowOut {
	var out []RowOut
	for _, k := range t.Keys() {
		r := t.Rows[k]
		if r.Empty() {
			continue
		}
		out = append(out, RowOut{Key: BS(k), Cells: r.Cells()})
	}
	return out
}

// ------------------------------------------------------------------ stepping the model

func gcEqual(a, b *GC) bool {
	if a == nil || b == nil {
		return a == nil && b == nil
	}
	if a.K != b.K || a.N != b.N || a.Sec != b.Sec || a.Nanos != b.Nanos || len(a.Subs) != len(b.Subs) {
		return false
	}
	for i := range a.Subs {
		if !gcEqual(&a.Subs[i], &b.Subs[i]) {
			return false
		}
	}
	return true
}

func (m *Model) checkDef(t *MTable, name string, d *TableDef) string {
	if d == nil {
		return "no table definition in the response"
	}
	if d.Name != name {
		return fmt.Sprintf("table name %q, want %q", d.Name, name)
	}
	if len(d.Fams) != len(t.Fams) {
		return fmt.Sprintf("families %v, want %v", famNames(d.Fams), famNames(t.Fams))
	}
	for f, g := range t.Fams {
		dg, ok := d.Fams[f]
		if !ok {
			return fmt.Sprintf("families %v, want %v", famNames(d.Fams), famNames(t.Fams))
		}
		if !gcEqual(g, dg) {
			return fmt.Sprintf("family %q: gc rule %+v, want %+v", f, dg, g)
		}
	}
	return ""
}

func famNames(m map[string]*GC) []string {
	out := make([]string, 0, len(m))
	for k := range m {
		out = append(out, k)
	}
	sort.Strings(out)
	return out
}

func errClass(got *Result) bool { return got.Code != 0 }

// Step checks the response of op against the model and advances the model.
// It returns "" or a description of the mismatch.
func (m *Model) Step(op *Op, got *Result) string {
	if op.Clock != nil {
		m.Clock = *op.Clock
	}
	if got.Panic != "" {
		return op.K + ": panic: " + got.Panic
	}
	s := m.step(op, got)
	if s != "" {
		return op.K + ": " + s
	}
	return ""
}

func (m *Model) step(op *Op, got *Result) string {
	name := op.FullName()
	t := m.Tables[name]
	needTable := func() string {
		if t == nil {
			if got.Code != CodeNotFound {
				return fmt.Sprintf("table %q does not exist: want NotFound, got code %d (%s)", name, got.Code, got.Msg)
			}
			return "-"
		}
		return ""
	}
	verdict := func(v Verdict, what string) (applied bool, mismatch string) {
		switch v {
		case VOK:
			if errClass(got) {
				return false, fmt.Sprintf("%s: valid request rejected with code %d (%s)", what, got.Code, got.Msg)
			}
			return true, ""
		case VErr:
			if !errClass(got) {
				return false, fmt.Sprintf("%s: invalid request accepted (want an error)", what)
			}
			return false, ""
		}
		return !errClass(got), ""
	}
	switch op.K {
	case "SetClock":
		return ""
	case "MutateRow":
		if s := needTable(); s != "" {
			return strings.TrimPrefix(s, "-")
		}
		nr, v := ApplyMuts(t.Fams, t.Rows[string(op.Key)], op.Muts, m.Clock)
		applied, mis := verdict(v, "MutateRow")
		if mis != "" {
			return mis
		}
		if applied {
			t.put(string(op.Key), nr)
		}
	case "MutateRows":
		if s := needTable(); s != "" {
			return strings.TrimPrefix(s, "-")
		}
		if errClass(got) {
			if len(op.Entries) == 0 {
				return ""
			}
			return fmt.Sprintf("call failed with code %d (%s)", got.Code, got.Msg)
		}
		if len(got.Entries) != len(op.Entries) {
			return fmt.Sprintf("%d entry statuses for %d entries", len(got.Entries), len(op.Entries))
		}
		seen := map[int64]int32{}
		for _, e := range got.Entries {
			if _, dup := seen[e.Index]; dup || e.Index < 0 || e.Index >= int64(len(op.Entries)) {
				return fmt.Sprintf("bad or duplicate entry index %d", e.Index)
			}
			seen[e.Index] = e.Code
		}
		for i, e := range op.Entries {
			nr, v := ApplyMuts(t.Fams, t.Rows[string(e.Key)], e.Muts, m.Clock)
			code := seen[int64(i)]
			switch v {
			case VOK:
				if code != 0 {
					return fmt.Sprintf("entry %d: valid entry got status %d", i, code)
				}
			case VErr:
				if code == 0 {
					return fmt.Sprintf("entry %d: invalid entry got status OK", i)
				}
			}
			if code == 0 {
				t.put(string(e.Key), nr)
			}
		}
	case "CheckAndMutate":
		if s := needTable(); s != "" {
			return strings.TrimPrefix(s, "-")
		}
		row := t.Rows[string(op.Key)]
		matched := !row.Empty()
		if op.Pred != nil {
			er := evalFilterAmb(op.Pred, op.Key, row.Cells(), nil, true)
			if er.Unspec || er.Samples > 0 {
				return m.resync(op, got, "predicate semantics unspecified")
			}
			if er.Status == EvInvalid || RootInvalid(op.Pred) {
				if !errClass(got) {
					return "invalid predicate accepted"
				}
				return ""
			}
			if errClass(got) && (er.Status == EvInvalidLazy || er.ZeroCount || StaticInvalid(op.Pred)) {
				return "" // rejected up front: fine, nothing changed
			}
			matched = len(er.Cells) > 0
		}
		muts := op.FMuts
		if matched {
			muts = op.TMuts
		}
		nr, v := ApplyMuts(t.Fams, row, muts, m.Clock)
		if v == VOK || v == VEither {
			// an invalid mutation in the branch that was not selected may also be rejected
			other := op.TMuts
			if matched {
				other = op.FMuts
			}
			if _, ov := ApplyMuts(t.Fams, row, other, m.Clock); ov == VErr && errClass(got) {
				return ""
			}
		}
		applied, mis := verdict(v, "selected branch")
		if mis != "" {
			return mis
		}
		if applied {
			if got.Matched != matched {
				return fmt.Sprintf("predicate_matched=%v, want %v", got.Matched, matched)
			}
			t.put(string(op.Key), nr)
		}
	case "RMW":
		if s := needTable(); s != "" {
			return strings.TrimPrefix(s, "-")
		}
		nr, resp, v := ApplyRMW(t.Fams, t.Rows[string(op.Key)], op.Rules, m.Clock)
		applied, mis := verdict(v, "ReadModifyWriteRow")
		if mis != "" {
			return mis
		}
		if applied {
			if len(got.Rows) != 1 {
				return "no row in the response"
			}
			if got.Rows[0].Key != op.Key {
				return fmt.Sprintf("response row key %q, want %q", got.Rows[0].Key, op.Key)
			}
			if len(op.Rules) > 0 {
				if s := SameCells(got.Rows[0].Cells, resp); s != "" {
					return "response row: " + s
				}
			}
			t.put(string(op.Key), nr)
		}
	case "ReadRows":
		var e ReadExpect
		if t == nil {
			e.NotFound = true
		} else {
			e = ExpectRead(t.Candidates(), op.Rows, op.Filter, op.Limit, true, nil)
		}
		return e.Check(got, !hasInterleave(op.Filter))
	case "Sample":
		if s := needTable(); s != "" {
			return strings.TrimPrefix(s, "-")
		}
		if errClass(got) {
			return fmt.Sprintf("code %d (%s)", got.Code, got.Msg)
		}
		return t.checkSamples(got.Samples)
	case "CreateTable":
		if t != nil {
			if got.Code != CodeExists {
				return fmt.Sprintf("table exists: want AlreadyExists, got code %d", got.Code)
			}
			return ""
		}
		if errClass(got) {
			return fmt.Sprintf("code %d (%s)", got.Code, got.Msg)
		}
		nt := &MTable{Fams: map[string]*GC{}, Rows: map[string]MRow{}}
		for _, f := range op.Fams {
			nt.Fams[f.Name] = f.GC
		}
		m.Tables[name] = nt
		return m.checkDef(nt, name, got.Def)
	case "GetTable":
		if s := needTable(); s != "" {
			return strings.TrimPrefix(s, "-")
		}
		if errClass(got) {
			return fmt.Sprintf("code %d (%s)", got.Code, got.Msg)
		}
		return m.checkDef(t, name, got.Def)
	case "ListTables":
		if errClass(got) {
			return fmt.Sprintf("code %d (%s)", got.Code, got.Msg)
		}
		var want []string
		prefix := op.ParentName() + "/tables/"
		for n := range m.Tables {
			if strings.HasPrefix(n, prefix) {
				want = append(want, n)
			}
		}
		sort.Strings(want)
		if strings.Join(want, "\x00") != strings.Join(got.Tables, "\x00") {
			return fmt.Sprintf("got %v, want %v", got.Tables, want)
		}
	case "DeleteTable":
		if s := needTable(); s != "" {
			return strings.TrimPrefix(s, "-")
		}
		if errClass(got) {
			return fmt.Sprintf("code %d (%s)", got.Code, got.Msg)
		}
		delete(m.Tables, name)
	case "ModifyCF":
		if s := needTable(); s != "" {
			return strings.TrimPrefix(s, "-")
		}
		fams := map[string]*GC{}
		for f, g := range t.Fams {
			fams[f] = g
		}
		var dropped []string
		valid := true
		for _, mod := range op.Mods {
			_, have := fams[mod.ID]
			switch mod.K {
			case "create":
				if have {
					valid = false
				}
				fams[mod.ID] = mod.GC
			case "update":
				if !have {
					valid = false
				}
				fams[mod.ID] = mod.GC
			case "drop":
				if !have {
					valid = false
				}
				delete(fams, mod.ID)
				dropped = append(dropped, mod.ID)
			default:
				return m.resync(op, got, "modification without a oneof")
			}
			if !valid {
				break
			}
		}
		if !valid {
			if !errClass(got) {
				return "invalid modification list accepted"
			}
			return ""
		}
		if errClass(got) {
			if len(op.Mods) == 0 {
				return ""
			}
			return fmt.Sprintf("valid modification list rejected: code %d (%s)", got.Code, got.Msg)
		}
		t.Fams = fams
		for _, f := range dropped {
			// a family dropped and re-created in the same request still loses its cells
			for k, r := range t.Rows {
				delete(r, f)
				if r.Empty() {
					delete(t.Rows, k)
				}
			}
		}
		return m.checkDef(t, name, got.Def)
	case "DropRowRange":
		if s := needTable(); s != "" {
			return strings.TrimPrefix(s, "-")
		}
		if op.NoTgt {
			if !errClass(got) {
				return "request without a target accepted"
			}
			return ""
		}
		if errClass(got) {
			return fmt.Sprintf("code %d (%s)", got.Code, got.Msg)
		}
		for k := range t.Rows {
			if op.All || strings.HasPrefix(k, string(op.Prefix)) {
				delete(t.Rows, k)
			}
		}
	case "GenToken":
		if s := needTable(); s != "" {
			return strings.TrimPrefix(s, "-")
		}
		if errClass(got) {
			return fmt.Sprintf("code %d (%s)", got.Code, got.Msg)
		}
	case "CheckConsistency":
		if s := needTable(); s != "" {
			return strings.TrimPrefix(s, "-")
		}
	case "GC":
		// handled by the GC check itself
	default:
		return "model: unknown op"
	}
	return ""
}

// resync is used where the documentation leaves the outcome open: the model
// cannot predict, so the caller must re-read the row; here we only demand a
// clean status.
func (m *Model) resync(op *Op, got *Result, why string) string {
	return "UNSPEC:" + why
}

func (t *MTable) put(key string, r MRow) {
	if r == nil || r.Empty() {
		delete(t.Rows, key)
	} else {
		t.Rows[key] = r
	}
}

// checkSamples: ascending subsequence of stored keys ending with the last key,
// offsets non-decreasing.
func (t *MTable) checkSamples(ss []SampleKey) string {
	keys := t.Keys()
	if len(keys) == 0 {
		if len(ss) != 0 {
			return fmt.Sprintf("empty table but %d samples", len(ss))
		}
		return ""
	}
	if len(ss) == 0 {
		return "no sample for a non-empty table"
	}
	for i, s := range ss {
		if _, ok := t.Rows[string(s.Key)]; !ok {
			return fmt.Sprintf("sampled key %q is not a stored row", s.Key)
		}
		if i > 0 {
			if !(ss[i-1].Key < s.Key) {
				return fmt.Sprintf("sample keys not ascending: %q then %q", ss[i-1].Key, s.Key)
			}
			if s.Offset < ss[i-1].Offset {
				return fmt.Sprintf("offsets decrease: %d then %d", ss[i-1].Offset, s.Offset)
			}
		}
		if s.Offset < 0 {
			return "negative offset"
		}
	}
	if string(ss[len(ss)-1].Key) != keys[len(keys)-1] {
		return fmt.Sprintf("last sample %q is not the last key %q", ss[len(ss)-1].Key, keys[len(keys)-1])
	}
	return ""
}

// VerifyTable compares a full unfiltered scan with the model table.
func (t *MTable) VerifyScan(got *Result) string {
	e := ReadExpect{Rows: t.Candidates()}
	return e.Check(got, true)
}
