// Package bt: operation language, harness, reference model and generators for
// the Bigtable emulator checks.
package bt

import (
	"math"

	btapb "cloud.google.com/go/bigtable/admin/apiv2/adminpb"
	btpb "cloud.google.com/go/bigtable/apiv2/bigtablepb"
	"google.golang.org/protobuf/types/known/durationpb"

	"verif/internal/vt"
)

type BS = vt.BS

const (
	MaxTS         = math.MaxInt64 - math.MaxInt64%1000
	DefaultParent = "projects/p/instances/i"
)

// ------------------------------------------------------------------ mutations

type Mut struct {
	K     string `json:"k"` // set | delcol | delfam | delrow | unset
	Fam   string `json:"fam,omitempty"`
	Qual  BS     `json:"q,omitempty"`
	TS    int64  `json:"ts,omitempty"`
	Val   BS     `json:"v,omitempty"`
	Range bool   `json:"range,omitempty"`
	Start int64  `json:"s,omitempty"`
	End   int64  `json:"e,omitempty"`
}

func (m Mut) PB() *btpb.Mutation {
	switch m.K {
	case "set":
		return &btpb.Mutation{Mutation: &btpb.Mutation_SetCell_{SetCell: &btpb.Mutation_SetCell{
			FamilyName: m.Fam, ColumnQualifier: m.Qual.B(), TimestampMicros: m.TS, Value: m.Val.B()}}}
	case "delcol":
		d := &btpb.Mutation_DeleteFromColumn{FamilyName: m.Fam, ColumnQualifier: m.Qual.B()}
		if m.Range {
			d.TimeRange = &btpb.TimestampRange{StartTimestampMicros: m.Start, EndTimestampMicros: m.End}
		}
		return &btpb.Mutation{Mutation: &btpb.Mutation_DeleteFromColumn_{DeleteFromColumn: d}}
	case "delfam":
		return &btpb.Mutation{Mutation: &btpb.Mutation_DeleteFromFamily_{DeleteFromFamily: &btpb.Mutation_DeleteFromFamily{FamilyName: m.Fam}}}
	case "delrow":
		return &btpb.Mutation{Mutation: &btpb.Mutation_DeleteFromRow_{DeleteFromRow: &btpb.Mutation_DeleteFromRow{}}}
	}
	return &btpb.Mutation{}
}

func MutsPB(ms []Mut) []*btpb.Mutation {
	out := make([]*btpb.Mutation, 0, len(ms))
	for _, m := range ms {
		out = append(out, m.PB())
	}
	return out
}

type Entry struct {
	Key  BS    `json:"key"`
	Muts []Mut `json:"muts"`
}

type RMWRule struct {
	Fam    string `json:"fam"`
	Qual   BS     `json:"q"`
	Inc    bool   `json:"inc,omitempty"`
	Amount int64  `json:"amt,omitempty"`
	Append BS     `json:"app,omitempty"`
	Unset  bool   `json:"unset,omitempty"` // no oneof set (C20 only)
}

func (r RMWRule) PB() *btpb.ReadModifyWriteRule {
	out := &btpb.ReadModifyWriteRule{FamilyName: r.Fam, ColumnQualifier: r.Qual.B()}
	if r.Unset {
		return out
	}
	if r.Inc {
		out.Rule = &btpb.ReadModifyWriteRule_IncrementAmount{IncrementAmount: r.Amount}
	} else {
		out.Rule = &btpb.ReadModifyWriteRule_AppendValue{AppendValue: r.Append.B()}
	}
	return out
}

// ------------------------------------------------------------------ row sets

// Bound: K 0 = unset, 1 = open, 2 = closed.
type Bound struct {
	K int `json:"k"`
	V BS  `json:"v,omitempty"`
}

type Range struct {
	S Bound `json:"s"`
	E Bound `json:"e"`
}

type RowSet struct {
	Keys   []BS    `json:"keys,omitempty"`
	Ranges []Range `json:"ranges,omitempty"`
}

func (rs *RowSet) PB() *btpb.RowSet {
	if rs == nil {
		return nil
	}
	out := &btpb.RowSet{}
	for _, k := range rs.Keys {
		out.RowKeys = append(out.RowKeys, k.B())
	}
	for _, r := range rs.Ranges {
		rr := &btpb.RowRange{}
		switch r.S.K {
		case 1:
			rr.StartKey = &btpb.RowRange_StartKeyOpen{StartKeyOpen: r.S.V.B()}
		case 2:
			rr.StartKey = &btpb.RowRange_StartKeyClosed{StartKeyClosed: r.S.V.B()}
		}
		switch r.E.K {
		case 1:
			rr.EndKey = &btpb.RowRange_EndKeyOpen{EndKeyOpen: r.E.V.B()}
		case 2:
			rr.EndKey = &btpb.RowRange_EndKeyClosed{EndKeyClosed: r.E.V.B()}
		}
		out.RowRanges = append(out.RowRanges, rr)
	}
	return out
}

// ------------------------------------------------------------------ filters

type Filter struct {
	K     string   `json:"k"` // pass block rowkey family qual value colrange valrange tsrange rowlimit rowoffset collimit strip label sample chain interleave cond sink unset
	Flag  bool     `json:"flag,omitempty"`
	Rx    *Rx      `json:"rx,omitempty"`  // regex AST (oracle evaluates it; pattern is rendered from it)
	Raw   BS       `json:"raw,omitempty"` // raw pattern when Rx == nil (known-bad patterns)
	Fam   string   `json:"fam,omitempty"`
	S     Bound    `json:"s,omitempty"`
	E     Bound    `json:"e,omitempty"`
	TS    int64    `json:"ts,omitempty"`
	TE    int64    `json:"te,omitempty"`
	N     int32    `json:"n,omitempty"`
	Label string   `json:"label,omitempty"`
	P     float64  `json:"p,omitempty"`
	Subs  []Filter `json:"subs,omitempty"`
	Pred  *Filter  `json:"pred,omitempty"`
	True  *Filter  `json:"true,omitempty"`
	False *Filter  `json:"false,omitempty"`
}

func (f *Filter) Pattern() []byte {
	if f.Rx != nil {
		return []byte(f.Rx.Render())
	}
	return f.Raw.B()
}

func (f *Filter) PB() *btpb.RowFilter {
	if f == nil {
		return nil
	}
	switch f.K {
	case "pass":
		return &btpb.RowFilter{Filter: &btpb.RowFilter_PassAllFilter{PassAllFilter: f.Flag}}
	case "block":
		return &btpb.RowFilter{Filter: &btpb.RowFilter_BlockAllFilter{BlockAllFilter: f.Flag}}
	case "sink":
		return &btpb.RowFilter{Filter: &btpb.RowFilter_Sink{Sink: f.Flag}}
	case "rowkey":
		return &btpb.RowFilter{Filter: &btpb.RowFilter_RowKeyRegexFilter{RowKeyRegexFilter: f.Pattern()}}
	case "family":
		return &btpb.RowFilter{Filter: &btpb.RowFilter_FamilyNameRegexFilter{FamilyNameRegexFilter: string(f.Pattern())}}
	case "qual":
		return &btpb.RowFilter{Filter: &btpb.RowFilter_ColumnQualifierRegexFilter{ColumnQualifierRegexFilter: f.Pattern()}}
	case "value":
		return &btpb.RowFilter{Filter: &btpb.RowFilter_ValueRegexFilter{ValueRegexFilter: f.Pattern()}}
	case "colrange":
		cr := &btpb.ColumnRange{FamilyName: f.Fam}
		switch f.S.K {
		case 1:
			cr.StartQualifier = &btpb.ColumnRange_StartQualifierOpen{StartQualifierOpen: f.S.V.B()}
		case 2:
			cr.StartQualifier = &btpb.ColumnRange_StartQualifierClosed{StartQualifierClosed: f.S.V.B()}
		}
		switch f.E.K {
		case 1:
			cr.EndQualifier = &btpb.ColumnRange_EndQualifierOpen{EndQualifierOpen: f.E.V.B()}
		case 2:
			cr.EndQualifier = &btpb.ColumnRange_EndQualifierClosed{EndQualifierClosed: f.E.V.B()}
		}
		return &btpb.RowFilter{Filter: &btpb.RowFilter_ColumnRangeFilter{ColumnRangeFilter: cr}}
	case "valrange":
		vr := &btpb.ValueRange{}
		switch f.S.K {
		case 1:
			vr.StartValue = &btpb.ValueRange_StartValueOpen{StartValueOpen: f.S.V.B()}
		case 2:
			vr.StartValue = &btpb.ValueRange_StartValueClosed{StartValueClosed: f.S.V.B()}
		}
		switch f.E.K {
		case 1:
			vr.EndValue = &btpb.ValueRange_EndValueOpen{EndValueOpen: f.E.V.B()}
		case 2:
			vr.EndValue = &btpb.ValueRange_EndValueClosed{EndValueClosed: f.E.V.B()}
		}
		return &btpb.RowFilter{Filter: &btpb.RowFilter_ValueRangeFilter{ValueRangeFilter: vr}}
	case "tsrange":
		return &btpb.RowFilter{Filter: &btpb.RowFilter_TimestampRangeFilter{TimestampRangeFilter: &btpb.TimestampRange{StartTimestampMicros: f.TS, EndTimestampMicros: f.TE}}}
	case "rowlimit":
		return &btpb.RowFilter{Filter: &btpb.RowFilter_CellsPerRowLimitFilter{CellsPerRowLimitFilter: f.N}}
	case "rowoffset":
		return &btpb.RowFilter{Filter: &btpb.RowFilter_CellsPerRowOffsetFilter{CellsPerRowOffsetFilter: f.N}}
	case "collimit":
		return &btpb.RowFilter{Filter: &btpb.RowFilter_CellsPerColumnLimitFilter{CellsPerColumnLimitFilter: f.N}}
	case "strip":
		return &btpb.RowFilter{Filter: &btpb.RowFilter_StripValueTransformer{StripValueTransformer: f.Flag}}
	case "label":
		return &btpb.RowFilter{Filter: &btpb.RowFilter_ApplyLabelTransformer{ApplyLabelTransformer: f.Label}}
	case "sample":
		return &btpb.RowFilter{Filter: &btpb.RowFilter_RowSampleFilter{RowSampleFilter: f.P}}
	case "chain":
		ch := &btpb.RowFilter_Chain{}
		for i := range f.Subs {
			ch.Filters = append(ch.Filters, f.Subs[i].PB())
		}
		return &btpb.RowFilter{Filter: &btpb.RowFilter_Chain_{Chain: ch}}
	case "interleave":
		il := &btpb.RowFilter_Interleave{}
		for i := range f.Subs {
			il.Filters = append(il.Filters, f.Subs[i].PB())
		}
		return &btpb.RowFilter{Filter: &btpb.RowFilter_Interleave_{Interleave: il}}
	case "cond":
		return &btpb.RowFilter{Filter: &btpb.RowFilter_Condition_{Condition: &btpb.RowFilter_Condition{
			PredicateFilter: f.Pred.PB(), TrueFilter: f.True.PB(), FalseFilter: f.False.PB()}}}
	case "condnil":
		return &btpb.RowFilter{Filter: &btpb.RowFilter_Condition_{}}
	}
	return &btpb.RowFilter{} // "unset"
}

// ------------------------------------------------------------------ GC rules, schema

type GC struct {
	K     string `json:"k"` // maxv | maxage | union | inter | empty (GcRule with no oneof)
	N     int32  `json:"n,omitempty"`
	Sec   int64  `json:"sec,omitempty"`
	Nanos int32  `json:"nanos,omitempty"`
	Subs  []GC   `json:"subs,omitempty"`
}

func (g *GC) PB() *btapb.GcRule {
	if g == nil {
		return nil
	}
	switch g.K {
	case "maxv":
		return &btapb.GcRule{Rule: &btapb.GcRule_MaxNumVersions{MaxNumVersions: g.N}}
	case "maxage":
		return &btapb.GcRule{Rule: &btapb.GcRule_MaxAge{MaxAge: &durationpb.Duration{Seconds: g.Sec, Nanos: g.Nanos}}}
	case "union":
		u := &btapb.GcRule_Union{}
		for i := range g.Subs {
			u.Rules = append(u.Rules, g.Subs[i].PB())
		}
		return &btapb.GcRule{Rule: &btapb.GcRule_Union_{Union: u}}
	case "inter":
		u := &btapb.GcRule_Intersection{}
		for i := range g.Subs {
			u.Rules = append(u.Rules, g.Subs[i].PB())
		}
		return &btapb.GcRule{Rule: &btapb.GcRule_Intersection_{Intersection: u}}
	}
	return &btapb.GcRule{}
}

func GCFromPB(r *btapb.GcRule) *GC {
	if r == nil {
		return nil
	}
	switch x := r.Rule.(type) {
	case *btapb.GcRule_MaxNumVersions:
		return &GC{K: "maxv", N: x.MaxNumVersions}
	case *btapb.GcRule_MaxAge:
		return &GC{K: "maxage", Sec: x.MaxAge.GetSeconds(), Nanos: x.MaxAge.GetNanos()}
	case *btapb.GcRule_Union_:
		g := &GC{K: "union"}
		for _, s := range x.Union.GetRules() {
			if c := GCFromPB(s); c != nil {
				g.Subs = append(g.Subs, *c)
			}
		}
		return g
	case *btapb.GcRule_Intersection_:
		g := &GC{K: "inter"}
		for _, s := range x.Intersection.GetRules() {
			if c := GCFromPB(s); c != nil {
				g.Subs = append(g.Subs, *c)
			}
		}
		return g
	}
	return &GC{K: "empty"}
}

// FamDef: one column family in a CreateTable request.
type FamDef struct {
	Name string `json:"name"`
	GC   *GC    `json:"gc,omitempty"`
}

// Mod: one ModifyColumnFamilies modification.
type Mod struct {
	K  string `json:"k"` // create | update | drop | dropfalse | unset
	ID string `json:"id"`
	GC *GC    `json:"gc,omitempty"`
}

func (m Mod) PB() *btapb.ModifyColumnFamiliesRequest_Modification {
	out := &btapb.ModifyColumnFamiliesRequest_Modification{Id: m.ID}
	switch m.K {
	case "create":
		out.Mod = &btapb.ModifyColumnFamiliesRequest_Modification_Create{Create: &btapb.ColumnFamily{GcRule: m.GC.PB()}}
	case "update":
		out.Mod = &btapb.ModifyColumnFamiliesRequest_Modification_Update{Update: &btapb.ColumnFamily{GcRule: m.GC.PB()}}
	case "drop":
		out.Mod = &btapb.ModifyColumnFamiliesRequest_Modification_Drop{Drop: true}
	case "dropfalse":
		out.Mod = &btapb.ModifyColumnFamiliesRequest_Modification_Drop{Drop: false}
	}
	return out
}

// ------------------------------------------------------------------ operations

type Op struct {
	K      string `json:"op"`
	Parent string `json:"parent,omitempty"` // "" = DefaultParent
	Table  string `json:"table,omitempty"`  // table id
	Clock  *int64 `json:"clock,omitempty"`  // if set: value the injected clock returns from this op on (micros)

	Key     BS        `json:"key,omitempty"`
	Muts    []Mut     `json:"muts,omitempty"`
	Entries []Entry   `json:"entries,omitempty"`
	Pred    *Filter   `json:"pred,omitempty"`
	TMuts   []Mut     `json:"tmuts,omitempty"`
	FMuts   []Mut     `json:"fmuts,omitempty"`
	Rules   []RMWRule `json:"rules,omitempty"`

	Rows   *RowSet `json:"rows,omitempty"`
	Filter *Filter `json:"filter,omitempty"`
	Limit  int64   `json:"limit,omitempty"`

	Fams    []FamDef `json:"fams,omitempty"`
	NoTable bool     `json:"notable,omitempty"` // CreateTable with a nil Table message
	Mods    []Mod    `json:"mods,omitempty"`
	Prefix  BS       `json:"prefix,omitempty"`
	All     bool     `json:"all,omitempty"`
	NoTgt   bool     `json:"notgt,omitempty"` // DropRowRange with neither target set
	Token   string   `json:"token,omitempty"`
	Force   bool     `json:"force,omitempty"` // GC
	AgeMin  int      `json:"agemin,omitempty"`
}

func (o *Op) FullName() string {
	p := o.Parent
	if p == "" {
		p = DefaultParent
	}
	return p + "/tables/" + o.Table
}

func (o *Op) ParentName() string {
	if o.Parent == "" {
		return DefaultParent
	}
	return o.Parent
}

// ------------------------------------------------------------------ results

type Cell struct {
	Fam    string   `json:"fam"`
	Qual   BS       `json:"q"`
	TS     int64    `json:"ts"`
	Val    BS       `json:"v"`
	Labels []string `json:"labels,omitempty"`
}

type RowOut struct {
	Key   BS     `json:"key"`
	Cells []Cell `json:"cells"`
}

type EntryStatus struct {
	Index int64 `json:"i"`
	Code  int32 `json:"code"`
}

type SampleKey struct {
	Key    BS    `json:"key"`
	Offset int64 `json:"off"`
}

type TableDef struct {
	Name string         `json:"name"`
	Fams map[string]*GC `json:"fams"`
	Gran int32          `json:"gran,omitempty"`
}

type Result struct {
	Code      int           `json:"code"`
	Msg       string        `json:"msg,omitempty"`
	Panic     string        `json:"panic,omitempty"`
	Rows      []RowOut      `json:"rows,omitempty"`
	StreamErr string        `json:"streamerr,omitempty"`
	Msgs      int           `json:"msgs,omitempty"`
	Entries   []EntryStatus `json:"entries,omitempty"`
	Matched   bool          `json:"matched,omitempty"`
	Tables    []string      `json:"tables,omitempty"`
	Def       *TableDef     `json:"def,omitempty"`
	Samples   []SampleKey   `json:"samples,omitempty"`
	Token     string        `json:"token,omitempty"`
	Consist   bool          `json:"consistent,omitempty"`
}

func (r *Result) OK() bool { return r.Panic == "" && r.Code == 0 }
