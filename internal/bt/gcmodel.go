package bt

import "sort"

// GC reference evaluator (written from the GcRule documentation).

// gcKeep returns the timestamps of a column that the rule retains.
// cells: ts -> value. nowUS: the clock of the pass.
func gcKeep(rule *GC, cells map[int64]string, nowUS int64) map[int64]bool {
	var tss []int64
	for ts := range cells {
		tss = append(tss, ts)
	}
	sort.Slice(tss, func(i, j int) bool { return tss[i] > tss[j] }) // newest first
	keep := map[int64]bool{}
	for _, ts := range tss {
		keep[ts] = true
	}
	var condemn func(r *GC)
	condemn = func(r *GC) {
		if r == nil {
			return
		}
		switch r.K {
		case "maxv":
			for i, ts := range tss {
				if i >= int(r.N) {
					delete(keep, ts)
				}
			}
		case "maxage":
			cutoff := nowUS - r.Sec*1000000 - int64(r.Nanos)/1000
			for _, ts := range tss {
				if ts < cutoff {
					delete(keep, ts)
				}
			}
		case "union":
			for i := range r.Subs {
				condemn(&r.Subs[i])
			}
		}
		// intersection / empty: unsupported, nothing is collected
	}
	condemn(rule)
	return keep
}

// GCSupported: does the emulator claim to apply this rule? (intersection is documented as unsupported)
func GCSupported(r *GC) bool {
	if r == nil {
		return false
	}
	switch r.K {
	case "maxv", "maxage":
		return true
	case "union":
		return true
	}
	return false
}

// GCRow applies the family rules to a row; returns the collected row (nil when nothing is left).
func GCRow(fams map[string]*GC, row MRow, nowUS int64) MRow {
	out := row.Clone()
	for f, qs := range out {
		rule := fams[f]
		if rule == nil {
			continue
		}
		for _, cells := range qs {
			keep := gcKeep(rule, cells, nowUS)
			for ts := range cells {
				if !keep[ts] {
					delete(cells, ts)
				}
			}
		}
	}
	out.prune()
	return out
}

// GCTable applies a pass to every row of the table.
func (t *MTable) GC(nowUS int64) {
	for k, r := range t.Rows {
		nr := GCRow(t.Fams, r, nowUS)
		if nr.Empty() {
			delete(t.Rows, k)
		} else {
			t.Rows[k] = nr
		}
	}
}

// RowEqual compares two model rows.
func RowEqual(a, b MRow) bool {
	return SameCells(a.Cells(), b.Cells()) == ""
}
