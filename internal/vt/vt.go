// Package vt holds the plumbing shared by every check: byte-string type that
// survives JSON, failure records, replay/shard flags, evidence counters.
package vt

import (
	"encoding/json"
	"flag"
	"fmt"
	"hash/fnv"
	"os"
	"path/filepath"
	"regexp"
	"runtime"
	"sort"
	"strconv"
	"strings"
	"sync"
	"testing"
	"time"

	"pgregory.net/rapid"
)

// ---------------------------------------------------------------- byte strings

// BS is an arbitrary byte string. It marshals to a JSON string holding the Go
// escaped form (ASCII only), so 0x00 / 0xff survive and samples stay readable.
type BS string

func (b BS) MarshalJSON() ([]byte, error) {
	q := strconv.QuoteToASCII(string(b))
	// q is a Go literal; make it a JSON string whose *content* is the literal body.
	return json.Marshal(q[1 : len(q)-1])
}

func (b *BS) UnmarshalJSON(data []byte) error {
	var s string
	if err := json.Unmarshal(data, &s); err != nil {
		return err
	}
	// the body never contains an unescaped double quote (QuoteToASCII escapes it)
	u, err := strconv.Unquote(`"` + s + `"`)
	if err != nil {
		return fmt.Errorf("BS %q: %w", s, err)
	}
	*b = BS(u)
	return nil
}

func (b BS) B() []byte { return []byte(b) }

// ---------------------------------------------------------------- flags

var (
	flagReplay  = flag.String("verif.replay", "", "replay this case file instead of searching")
	flagShard   = flag.Int("verif.shard", 0, "shard index")
	flagNShards = flag.Int("verif.nshards", 1, "number of shards")
	flagTier    = flag.String("verif.tier", "quick", "quick|thorough")
	flagSeed    = flag.Int64("verif.seed", 1, "VERIF_SEED as given to the driver")
	flagN       = flag.Int("verif.n", 0, "case budget for non-rapid enumerations (0 = default of the test)")
)

func Replay() string { return *flagReplay }
func Shard() int     { return *flagShard }
func NShards() int   { return *flagNShards }
func Tier() string   { return *flagTier }
func Thorough() bool { return *flagTier == "thorough" }
func Seed() int64    { return *flagSeed }
func Budget(def int) int {
	if *flagN > 0 {
		return *flagN
	}
	return def
}

func OutDir() string {
	d := os.Getenv("VERIF_OUT")
	if d == "" {
		d = filepath.Join(os.TempDir(), "verif-out")
	}
	_ = os.MkdirAll(d, 0o777)
	return d
}

// ---------------------------------------------------------------- failures

// Failure describes one violated expectation.
type Failure struct {
	Property string `json:"property"`
	Msg      string `json:"msg"`
	// Sig is the known-finding signature that matched ("" = none).
	Sig string `json:"sig,omitempty"`
}

func (f *Failure) Error() string { return f.Msg }

func Failf(prop, format string, a ...interface{}) *Failure {
	return &Failure{Property: prop, Msg: fmt.Sprintf(format, a...)}
}

// FailFile is what lands in replays/: the case plus what went wrong.
type FailFile struct {
	Property string          `json:"property"`
	Test     string          `json:"test"`
	Failure  string          `json:"failure"`
	Case     json.RawMessage `json:"case"`
}

func failPath(test string) string {
	return filepath.Join(OutDir(), fmt.Sprintf("fail-%s-%d.json", test, Shard()))
}

// WriteFail records the failing case (overwriting earlier, larger ones).
func WriteFail(test string, c interface{}, f *Failure) {
	raw, err := json.Marshal(c)
	if err != nil {
		raw = []byte(fmt.Sprintf("%q", fmt.Sprintf("unmarshalable case: %v", err)))
	}
	ff := FailFile{Property: f.Property, Test: test, Failure: f.Msg, Case: raw}
	buf, _ := json.MarshalIndent(ff, "", " ")
	_ = os.WriteFile(failPath(test), buf, 0o666)
}

// WriteCurrent records the case that is about to run, for checks whose failure
// mode is the death of the process (fatal runtime error, race detector halt).
func WriteCurrent(test, prop string, c interface{}) {
	raw, _ := json.Marshal(c)
	ff := FailFile{Property: prop, Test: test, Failure: "process died while running this case", Case: raw}
	buf, _ := json.MarshalIndent(ff, "", " ")
	_ = os.WriteFile(filepath.Join(OutDir(), fmt.Sprintf("current-%s-%d.json", test, Shard())), buf, 0o666)
}

func ClearCurrent(test string) {
	_ = os.Remove(filepath.Join(OutDir(), fmt.Sprintf("current-%s-%d.json", test, Shard())))
}

// LoadCase reads a replay file into c.
func LoadCase(path string, c interface{}) (*FailFile, error) {
	buf, err := os.ReadFile(path)
	if err != nil {
		return nil, err
	}
	var ff FailFile
	if err := json.Unmarshal(buf, &ff); err != nil {
		return nil, err
	}
	if err := json.Unmarshal(ff.Case, c); err != nil {
		return nil, err
	}
	return &ff, nil
}

// ---------------------------------------------------------------- evidence

type Ev struct {
	mu         sync.Mutex
	Test       string
	Prop       string
	Rule       string
	start      time.Time
	evals      int
	nontriv    map[uint64]struct{}
	labels     map[string]int
	samples    []json.RawMessage
	knownHits  map[string]int
	extra      map[string]interface{}
	exhaustive bool
	space      int64
}

func NewEv(prop, test, rule string) *Ev {
	return &Ev{Prop: prop, Test: test, Rule: rule, start: time.Now(),
		nontriv: map[uint64]struct{}{}, labels: map[string]int{}, knownHits: map[string]int{}, extra: map[string]interface{}{}}
}

func Hash(c interface{}) uint64 {
	raw, _ := json.Marshal(c)
	h := fnv.New64a()
	_, _ = h.Write(raw)
	return h.Sum64()
}

// Case counts one evaluated case.
func (e *Ev) Case(c interface{}, nontrivial bool, labels ...string) {
	e.mu.Lock()
	defer e.mu.Unlock()
	e.evals++
	for _, l := range labels {
		if l != "" {
			e.labels[l]++
		}
	}
	if nontrivial {
		h := Hash(c)
		if _, ok := e.nontriv[h]; !ok {
			e.nontriv[h] = struct{}{}
			if len(e.samples) < 3 {
				raw, _ := json.Marshal(c)
				if len(raw) < 6000 {
					e.samples = append(e.samples, raw)
				}
			}
		}
	}
}

func (e *Ev) Label(l string) {
	e.mu.Lock()
	e.labels[l]++
	e.mu.Unlock()
}

func (e *Ev) KnownHit(sig string) {
	e.mu.Lock()
	e.knownHits[sig]++
	e.mu.Unlock()
}

func (e *Ev) Set(k string, v interface{}) {
	e.mu.Lock()
	e.extra[k] = v
	e.mu.Unlock()
}

func (e *Ev) Add(k string, n int64) {
	e.mu.Lock()
	if cur, ok := e.extra[k].(int64); ok {
		e.extra[k] = cur + n
	} else {
		e.extra[k] = n
	}
	e.mu.Unlock()
}

func (e *Ev) Exhaustive(space int64) {
	e.mu.Lock()
	e.exhaustive = true
	e.space = space
	e.mu.Unlock()
}

type evFile struct {
	Test       string                 `json:"test"`
	Property   string                 `json:"property"`
	Rule       string                 `json:"rule"`
	Shard      int                    `json:"shard"`
	Evals      int                    `json:"evaluations"`
	Hashes     []uint64               `json:"nontrivial_hashes"`
	Labels     map[string]int         `json:"labels"`
	Samples    []json.RawMessage      `json:"samples"`
	KnownHits  map[string]int         `json:"known_finding_hits"`
	Extra      map[string]interface{} `json:"extra"`
	Exhaustive bool                   `json:"exhaustive"`
	Space      int64                  `json:"space"`
	WallS      float64                `json:"wall_s"`
}

// Flush writes this shard's evidence; the driver merges the shards.
func (e *Ev) Flush() {
	e.mu.Lock()
	defer e.mu.Unlock()
	hs := make([]uint64, 0, len(e.nontriv))
	for h := range e.nontriv {
		hs = append(hs, h)
	}
	sort.Slice(hs, func(i, j int) bool { return hs[i] < hs[j] })
	f := evFile{Test: e.Test, Property: e.Prop, Rule: e.Rule, Shard: Shard(), Evals: e.evals, Hashes: hs, Labels: e.labels,
		Samples: e.samples, KnownHits: e.knownHits, Extra: e.extra, Exhaustive: e.exhaustive, Space: e.space,
		WallS: time.Since(e.start).Seconds()}
	buf, _ := json.Marshal(f)
	_ = os.WriteFile(filepath.Join(OutDir(), fmt.Sprintf("ev-%s-%d.json", e.Test, Shard())), buf, 0o666)
}

// ---------------------------------------------------------------- running a property

// Prop ties a generator, a runner and the evidence together.
//
//	run(c) evaluates the case and returns nil or the failure; it is responsible
//	for calling ev.Case.
type Prop[C any] struct {
	ID   string // property id, e.g. "C13"
	Test string // test function name (unique per unit)
	Rule string
	Gen  *rapid.Generator[C]
	Run  func(c C, ev *Ev) *Failure
}

// Main is the body of the Go test function.
func (p Prop[C]) Main(t *testing.T) {
	ev := NewEv(p.ID, p.Test, p.Rule)
	if rp := Replay(); rp != "" {
		var c C
		ff, err := LoadCase(rp, &c)
		if err != nil {
			t.Fatalf("REPLAY-ERROR cannot load %s: %v", rp, err)
		}
		if ff.Test != "" && ff.Test != p.Test {
			t.Skipf("replay file is for %s", ff.Test)
		}
		if f := p.Run(c, ev); f != nil {
			fmt.Printf("REPLAY-FAIL property=%s file=%s sig=%s :: %s\n", p.ID, rp, f.Sig, oneLine(f.Msg))
			t.Fatalf("replay failed: %s", f.Msg)
		}
		fmt.Printf("REPLAY-PASS property=%s file=%s\n", p.ID, rp)
		return
	}
	defer ev.Flush()
	rapid.Check(t, func(rt *rapid.T) {
		c := p.Gen.Draw(rt, "case")
		if f := p.Run(c, ev); f != nil {
			WriteFail(p.Test, c, f)
			rt.Fatalf("%s", f.Msg)
		}
	})
}

// RunEnum drives an enumeration (no rapid): next returns cases until ok=false.
// Cases are sharded by index.
func RunEnum[C any](t *testing.T, p Prop[C], ev *Ev, total int64, at func(i int64) C) {
	n := int64(0)
	for i := int64(Shard()); i < total; i += int64(NShards()) {
		c := at(i)
		n++
		if f := p.Run(c, ev); f != nil {
			WriteFail(p.Test, c, f)
			t.Fatalf("enumeration index %d: %s", i, f.Msg)
		}
	}
}

func oneLine(s string) string {
	s = strings.ReplaceAll(s, "\n", " | ")
	if len(s) > 400 {
		s = s[:400] + "…"
	}
	return s
}

// ---------------------------------------------------------------- hung goroutines

// Goid returns the id of the calling goroutine.
func Goid() int64 {
	var buf [64]byte
	n := runtime.Stack(buf[:], false)
	f := strings.Fields(string(buf[:n]))
	if len(f) < 2 {
		return -1
	}
	id, _ := strconv.ParseInt(f[1], 10, 64)
	return id
}

var goroutineHeader = regexp.MustCompile(`(?m)^goroutine (\d+) \[([^\]]+)\]`)

// GoroutineState returns the wait state of goroutine id ("" if it no longer exists).
func GoroutineState(id int64) string {
	buf := make([]byte, 1<<16)
	for {
		n := runtime.Stack(buf, true)
		if n < len(buf) {
			buf = buf[:n]
			break
		}
		buf = make([]byte, 2*len(buf))
	}
	for _, m := range goroutineHeader.FindAllSubmatch(buf, -1) {
		if g, _ := strconv.ParseInt(string(m[1]), 10, 64); g == id {
			st := string(m[2])
			if i := strings.Index(st, ","); i >= 0 {
				st = st[:i]
			}
			return st
		}
	}
	return ""
}

// Stuck decides, for a request whose handler goroutine id has not returned in
// time, whether it is blocked (waiting for a lock, a channel or a condition in
// every one of 5 samples taken a second apart: a hang) or merely slow
// (running, runnable, in a system call or I/O wait in some sample: the machine
// is overloaded, which must never be reported as a finding).
func Stuck(id int64) (stuck bool, states []string) {
	stuck = true
	for i := 0; i < 5; i++ {
		st := GoroutineState(id)
		states = append(states, st)
		switch st {
		case "semacquire", "sync.Mutex.Lock", "sync.RWMutex.Lock", "sync.RWMutex.RLock", "sync.Cond.Wait", "sync.WaitGroup.Wait", "chan receive", "chan send", "select", "chan receive (nil chan)", "chan send (nil chan)", "select (no cases)":
		default:
			stuck = false
		}
		if i < 4 {
			time.Sleep(time.Second)
		}
	}
	return stuck, states
}

// StuckAll is Stuck for a set of goroutines: true iff in each of 5 samples
// every goroutine of ids that still exists sits in a blocking wait (and at
// least one still exists in the last sample).
func StuckAll(ids []int64) (stuck bool, last map[int64]string) {
	stuck = true
	for i := 0; i < 5; i++ {
		last = map[int64]string{}
		alive := 0
		for _, id := range ids {
			st := GoroutineState(id)
			if st == "" {
				continue
			}
			alive++
			last[id] = st
			if !blockedState(st) {
				stuck = false
			}
		}
		if alive == 0 {
			stuck = false
		}
		if i < 4 {
			time.Sleep(time.Second)
		}
	}
	return stuck, last
}

func blockedState(st string) bool {
	switch st {
	case "semacquire", "sync.Mutex.Lock", "sync.RWMutex.Lock", "sync.RWMutex.RLock", "sync.Cond.Wait", "sync.WaitGroup.Wait", "chan receive", "chan send", "select", "chan receive (nil chan)", "chan send (nil chan)", "select (no cases)":
		return true
	}
	return false
}

// Await waits for done. Every limit it looks at the goroutines ids() (those that
// execute code under test on their own stack): if all of them are blocked it
// returns a description (a hang / deadlock: a finding); if some are running it
// keeps waiting (an overloaded machine is not a finding), and after 5 rounds
// it gives up with a HARNESS panic (the run is inconclusive). With ids == nil
// (the code under test runs behind a harness call that detects hangs itself)
// it only ever waits or gives up.
func Await(done <-chan struct{}, limit time.Duration, ids func() []int64, what string) string {
	for round := 0; ; round++ {
		select {
		case <-done:
			return ""
		case <-time.After(limit):
		}
		if ids != nil {
			if stuck, st := StuckAll(ids()); stuck {
				return fmt.Sprintf("%s: not finished after %s and every goroutine involved is blocked: %v", what, limit*time.Duration(round+1), st)
			}
		}
		if round >= 4 {
			panic(fmt.Sprintf("HARNESS: %s: not finished after %d x %s although goroutines are still running: machine too slow to judge", what, round+1, limit))
		}
	}
}

// GoidSet collects goroutine ids from the goroutines themselves.
type GoidSet struct {
	mu  sync.Mutex
	ids []int64
}

func (g *GoidSet) Add() {
	id := Goid()
	g.mu.Lock()
	g.ids = append(g.ids, id)
	g.mu.Unlock()
}

func (g *GoidSet) IDs() []int64 {
	g.mu.Lock()
	defer g.mu.Unlock()
	return append([]int64(nil), g.ids...)
}
