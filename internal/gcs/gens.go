package gcs

import (
	"pgregory.net/rapid"
)

// NamePool: object names that are representable as files and free of directory
// conflicts (no name is a directory prefix of another) and of the per-directory
// ordering anomaly of the file store (that one belongs to C11/C09).
var NamePool = []string{"a", "a.txt", "dir/x", "dir/sub/y.json", "sp ace", "ünï/codé", "a%2Fb", "q?x", "h#x", "a+b", ".hidden", "x/o/y", "o", "b", "d.o.t.s"}

// NestNames are in directory conflict with each other ("top" is a file or a
// directory of the file store, never both at once). The runner skips a request
// whose name is not representable at that moment, so what these exercise is the
// SEQUENCE: a name becomes usable again once the objects in its way are deleted
// (clean-up of emptied directories), in both directions.
var NestNames = []string{"top/mid/leaf", "top", "top/mid", "top/z"}

// AllNames = NamePool + NestNames.
var AllNames = append(append([]string{}, NamePool...), NestNames...)

// MetaValues: user metadata values, among them ones that JSON encoders escape (or that look like an escape already).
var MetaValues = []string{"v", "", "ü", "<&>", "a\\u0026b", "\\u003c", "q\"uote", "back\\slash", "line\nbreak", "\u2028"}

// MemOnlyNames are object names that no file can have (trailing or doubled separators): memory store only.
var MemOnlyNames = []string{"photos/", "x/o/", "dir/sub/"}

// HostileNames confuse URL parsing (thorough tier of C02, C15).
var HostileNames = []string{"b/x/o/y", "storage/v1/b/x/o/y"}

var BucketPool = []string{"bkt", "b2"}

var CTPool = []string{"", "", "text/plain", "application/octet-stream", "image/png; charset=x"}

func GenPayload() *rapid.Generator[Payload] {
	return rapid.Custom(func(t *rapid.T) Payload {
		k := rapid.SampledFrom([]string{"empty", "one", "bin", "text", "text", "text", "bin", "framing", "rep"}).Draw(t, "pk")
		return Payload{K: k, N: rapid.IntRange(0, 40).Draw(t, "pn"), Seed: rapid.IntRange(0, 255).Draw(t, "seed")}
	})
}

func GenChunks() *rapid.Generator[[]Chunk] {
	return rapid.SliceOfN(rapid.Custom(func(t *rapid.T) Chunk {
		c := Chunk{K: rapid.SampledFrom([]string{"next", "next", "resend", "query", "final"}).Draw(t, "ck"),
			N: rapid.SampledFrom([]int{1, 2, 5, 16, 100, 300000}).Draw(t, "cn"), Lo: rapid.SampledFrom([]int{0, 1, 3, 1000000}).Draw(t, "lo"),
			Post: rapid.IntRange(0, 3).Draw(t, "post") == 0, No308: rapid.IntRange(0, 4).Draw(t, "no308") == 0, Gzip: rapid.IntRange(0, 5).Draw(t, "gz") == 0}
		return c
	}), 0, 6)
}

// GenUpload: an upload of name into bucket, protocol and framing drawn.
func GenUpload(buckets, names []string, big bool) *rapid.Generator[Op] {
	return rapid.Custom(func(t *rapid.T) Op {
		op := Op{K: "upload", Bucket: rapid.SampledFrom(buckets).Draw(t, "bucket"), Name: rapid.SampledFrom(names).Draw(t, "name"),
			Proto: rapid.SampledFrom([]string{"media", "multipart", "resumable", "resumable"}).Draw(t, "proto"), Data: GenPayload().Draw(t, "data"),
			Gzip: rapid.IntRange(0, 4).Draw(t, "gzip") == 0, CT: rapid.SampledFrom(CTPool).Draw(t, "ct"),
			MD5: rapid.SampledFrom([]string{"", "", "", "ok", "ok", "wrong", "notb64"}).Draw(t, "md5")}
		if big && rapid.IntRange(0, 19).Draw(t, "big") == 0 {
			op.Data = Payload{K: "big", Seed: rapid.IntRange(0, 9).Draw(t, "bseed")}
		}
		if op.Proto == "resumable" {
			op.Chunks = GenChunks().Draw(t, "chunks")
		}
		if op.Proto != "media" && rapid.IntRange(0, 2).Draw(t, "hasmeta") == 0 {
			op.Meta = map[string]string{rapid.SampledFrom([]string{"k1", "k2"}).Draw(t, "mk"): rapid.SampledFrom(MetaValues).Draw(t, "mv")}
		} else if op.Proto != "media" {
			op.EmptyMeta = rapid.IntRange(0, 3).Draw(t, "emptymeta") == 0
		}
		op.Chunked = rapid.IntRange(0, 5).Draw(t, "chunked") == 0
		if op.Proto == "resumable" && op.MD5 == "wrong" {
			op.RetryFinal = rapid.Bool().Draw(t, "retryfinal")
		}
		return op
	})
}

func GenCond(kinds []string) *rapid.Generator[Cond] {
	return rapid.Custom(func(t *rapid.T) Cond { return Cond{K: rapid.SampledFrom(kinds).Draw(t, "ck")} })
}

// GenConds: mostly unset, sometimes each of the kinds.
func GenConds(pct int) *rapid.Generator[Conds] {
	return rapid.Custom(func(t *rapid.T) Conds {
		var c Conds
		if rapid.IntRange(0, 99).Draw(t, "anycond") >= pct {
			return c
		}
		pick := func(kinds []string, l string) Cond {
			if rapid.IntRange(0, 2).Draw(t, l+"set") > 0 {
				return Cond{}
			}
			c := Cond{K: rapid.SampledFrom(kinds).Draw(t, l)}
			if c.K == "bad" {
				c.N = int64(rapid.IntRange(0, len(BadNumbers)-1).Draw(t, l+"bad"))
			}
			return c
		}
		c.GM = pick([]string{"cur", "cur", "other", "zero", "prev", "bad"}, "gm")
		c.GNM = pick([]string{"cur", "other", "other", "prev", "bad"}, "gnm")
		c.MM = pick([]string{"cur", "cur", "other", "bad"}, "mm")
		c.MNM = pick([]string{"cur", "other", "other", "bad"}, "mnm")
		return c
	})
}

func GenPatch(buckets, names []string, condPct int, ro bool) *rapid.Generator[Op] {
	return rapid.Custom(func(t *rapid.T) Op {
		op := Op{K: "patch", Bucket: rapid.SampledFrom(buckets).Draw(t, "bucket"), Name: rapid.SampledFrom(names).Draw(t, "name"),
			Conds: GenConds(condPct).Draw(t, "conds")}
		n := rapid.IntRange(1, 3).Draw(t, "nfields")
		for i := 0; i < n; i++ {
			switch rapid.IntRange(0, 5).Draw(t, "field") {
			case 0:
				op.Set = setk(op.Set, "contentType", rapid.SampledFrom([]string{"text/x", "a/b"}).Draw(t, "v"))
			case 1:
				op.Set = setk(op.Set, "cacheControl", rapid.SampledFrom([]string{"no-cache", "max-age=1"}).Draw(t, "v"))
			case 2:
				op.Set = setk(op.Set, "contentDisposition", rapid.SampledFrom([]string{"inline", "attachment"}).Draw(t, "v"))
			case 3:
				op.Set = setk(op.Set, "contentLanguage", rapid.SampledFrom([]string{"en", "de"}).Draw(t, "v"))
			default:
				op.MetaSet = setk(op.MetaSet, rapid.SampledFrom([]string{"k1", "k2", "k3"}).Draw(t, "mk"), rapid.SampledFrom(append([]string{"p", "q"}, MetaValues...)).Draw(t, "mv"))
			}
		}
		if ro && rapid.IntRange(0, 3).Draw(t, "ro") == 0 {
			switch k := rapid.SampledFrom([]string{"generation", "metageneration", "size", "md5Hash", "name", "bucket"}).Draw(t, "rok"); k {
			case "name": // the resource of ANOTHER object sent to this object's URL: only the addressed object may change
				op.RO = map[string]string{k: rapid.SampledFrom(names).Draw(t, "roname")}
			case "bucket":
				op.RO = map[string]string{k: rapid.SampledFrom(BucketPool).Draw(t, "robucket")}
			default:
				op.RO = map[string]string{k: rapid.SampledFrom([]string{"5", "77", "@cond", "@cond", "1", "2"}).Draw(t, "rov")}
			}
		}
		if rapid.IntRange(0, 19).Draw(t, "badbody") == 0 {
			op.BadBody = rapid.SampledFrom([]string{"{", "[1]", "\"x\"", "{\"metadata\": 5}",
				// a body that is valid up to a field of the wrong type: nothing of it may stick
				"{\"metadata\":{\"leaked\":\"yes\"},\"contentType\":5}", "{\"contentType\":\"leaked/type\",\"metadata\":{\"k1\":7}}", "{\"cacheControl\":\"leaked\",\"contentLanguage\":[]}"}).Draw(t, "bb")
		}
		return op
	})
}

func setk(m map[string]string, k, v string) map[string]string {
	if m == nil {
		m = map[string]string{}
	}
	m[k] = v
	return m
}

// ConflictFree drops names that are a directory prefix of another name (or
// have one), so that the set is representable by the file store.
func ConflictFree(names []string) []string {
	var out []string
	for _, n := range names {
		ok := true
		for _, o := range out {
			if len(n) > len(o) && n[:len(o)+1] == o+"/" || len(o) > len(n) && o[:len(n)+1] == n+"/" {
				ok = false
			}
		}
		if ok {
			out = append(out, n)
		}
	}
	return out
}

// PrefixNames returns the proper '/'-prefixes of the given names that are not
// names of the set themselves: directories of the file store, never objects.
func PrefixNames(names []string) []string {
	have := map[string]bool{}
	for _, n := range names {
		have[n] = true
	}
	var out []string
	for _, n := range names {
		for i := 1; i < len(n); i++ {
			if n[i] == '/' && !have[n[:i]] {
				have[n[:i]] = true
				out = append(out, n[:i])
			}
		}
	}
	return out
}
