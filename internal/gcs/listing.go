package gcs

import (
	"encoding/json"
	"fmt"
	"net/url"
	"sort"
	"strings"
)

// ListSpec: one listing request family (followed through its page tokens).
type ListSpec struct {
	Prefix string `json:"prefix,omitempty"`
	Delim  string `json:"delim,omitempty"`
	Max    int    `json:"max,omitempty"` // 0 = default
}

// ExpectedListing computes items and prefixes from the definition.
func ExpectedListing(names []string, prefix, delim string) (items, prefixes []string) {
	sorted := append([]string{}, names...)
	sort.Strings(sorted)
	seen := map[string]bool{}
	for _, n := range sorted {
		if !strings.HasPrefix(n, prefix) {
			continue
		}
		if delim != "" {
			rest := n[len(prefix):]
			if i := strings.Index(rest, delim); i >= 0 {
				p := prefix + rest[:i+len(delim)]
				if !seen[p] {
					seen[p] = true
					prefixes = append(prefixes, p)
				}
				continue
			}
		}
		items = append(items, n)
	}
	return
}

// ListStats says what a pagination exercised.
type ListStats struct {
	Pages     int
	Collapsed bool // a delimiter collapsed >=2 names into one prefix
}

// CheckListing paginates to the end and compares with the definition. metaOf
// (optional) returns the metadata-GET body of an object for the item comparison.
func CheckListing(e *Emu, bucket string, names []string, sp ListSpec, metaOf func(name string) map[string]interface{}) (ListStats, string) {
	var st ListStats
	wantItems, wantPrefixes := ExpectedListing(names, sp.Prefix, sp.Delim)
	if sp.Delim != "" {
		cnt := map[string]int{}
		for _, n := range names {
			if strings.HasPrefix(n, sp.Prefix) {
				if i := strings.Index(n[len(sp.Prefix):], sp.Delim); i >= 0 {
					cnt[n[:len(sp.Prefix)+i+len(sp.Delim)]]++
				}
			}
		}
		for _, c := range cnt {
			if c >= 2 {
				st.Collapsed = true
			}
		}
	}
	params := url.Values{}
	if sp.Prefix != "" {
		params.Set("prefix", sp.Prefix)
	}
	if sp.Delim != "" {
		params.Set("delimiter", sp.Delim)
	}
	max := 1000
	if sp.Max > 0 {
		params.Set("maxResults", fmt.Sprint(sp.Max))
		max = sp.Max
	}
	var gotItems, gotPrefixes []string
	token := ""
	capPages := 4*len(names) + 4
	for {
		qv := condQuery(params, nil)
		if token != "" {
			qv.Set("pageToken", token)
		}
		resp := e.Do(&Req{Method: "GET", Path: "/storage/v1/b/" + url.PathEscape(bucket) + "/o" + q(qv)})
		if resp.Panic != "" {
			return st, panicMsg(resp.Panic)
		}
		if resp.Status != 200 {
			return st, fmt.Sprintf("page %d: HTTP %d %s", st.Pages, resp.Status, clip(resp.Body))
		}
		var l struct {
			NextPageToken string                   `json:"nextPageToken"`
			Items         []map[string]interface{} `json:"items"`
			Prefixes      []string                 `json:"prefixes"`
		}
		if err := json.Unmarshal(resp.Body, &l); err != nil {
			return st, fmt.Sprintf("page %d: not JSON: %v", st.Pages, err)
		}
		st.Pages++
		if len(l.Items)+len(l.Prefixes) > max {
			return st, fmt.Sprintf("page %d holds %d items + %d prefixes > maxResults=%d", st.Pages, len(l.Items), len(l.Prefixes), max)
		}
		if l.NextPageToken != "" && len(l.Items)+len(l.Prefixes) == 0 {
			return st, fmt.Sprintf("page %d is empty but not the last one", st.Pages)
		}
		for _, it := range l.Items {
			name, _ := it["name"].(string)
			gotItems = append(gotItems, name)
			if metaOf != nil {
				want := metaOf(name)
				a, _ := json.Marshal(it)
				b, _ := json.Marshal(want)
				if string(a) != string(b) {
					return st, fmt.Sprintf("listing item %q differs from its metadata GET:\n  item: %s\n  GET:  %s", name, a, b)
				}
			}
		}
		gotPrefixes = append(gotPrefixes, l.Prefixes...)
		if l.NextPageToken == "" {
			break
		}
		if st.Pages > capPages {
			return st, fmt.Sprintf("pagination did not end after %d pages (token loop?)", st.Pages)
		}
		token = l.NextPageToken
	}
	if strings.Join(gotItems, "\x00") != strings.Join(wantItems, "\x00") {
		return st, fmt.Sprintf("items over %d page(s): got %q, want %q", st.Pages, gotItems, wantItems)
	}
	gp := append([]string{}, gotPrefixes...)
	sort.Strings(gp)
	wp := append([]string{}, wantPrefixes...)
	sort.Strings(wp)
	if strings.Join(gp, "\x00") != strings.Join(wp, "\x00") {
		return st, fmt.Sprintf("prefixes over %d page(s): got %q, want %q", st.Pages, gotPrefixes, wantPrefixes)
	}
	return st, ""
}

// MetaGetter returns a function fetching metadata GET bodies (cached).
func MetaGetter(e *Emu, bucket string) func(string) map[string]interface{} {
	cache := map[string]map[string]interface{}{}
	return func(name string) map[string]interface{} {
		if m, ok := cache[name]; ok {
			return m
		}
		resp := e.Do(&Req{Method: "GET", Path: ObjPath(bucket, name)})
		var m map[string]interface{}
		_ = json.Unmarshal(resp.Body, &m)
		cache[name] = m
		return m
	}
}

// URLCarries: can the object name travel in a URL path through net/http's mux
// without being redirected (no empty, "." or ".." segment)?
func URLCarries(name string) bool {
	for _, seg := range strings.Split(name, "/") {
		if seg == "" || seg == "." || seg == ".." {
			return false
		}
	}
	return true
}
