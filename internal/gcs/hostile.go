package gcs

import (
	"bytes"
	"fmt"
	"mime/multipart"
	"net/http"
	"net/textproto"
	"net/url"
	"strings"

	"pgregory.net/rapid"
)

// Structure- and byte-level perturbations of valid GCS requests (C20).

var hostileNames = []string{"a", "dir/x", "missing", "", "a%00b", "..", "../x", "x/o/y", "x/compose", "x/rewriteTo/b/bkt/o/y", strings.Repeat("n", 5000), "sp ace", "q?x", "h#x", "ü"}
var hostileBuckets = []string{"bkt", "b2", "nobucket", "", "b", "o", "storage", strings.Repeat("b", 3000), "bkt/o", ".."}
var hostileNums = []string{"", "0", "-1", "1", "abc", "1x", "9223372036854775807", "9223372036854775808", "-9223372036854775808", "1e3", " 1", "0x10"}
var hostileBodies = []string{"", "null", "{}", "[]", "\"x\"", "{", "{\"name\":", "{\"name\":null}", "{\"metadata\":5}", "{\"metadata\":{\"k\":null}}", "{\"sourceObjects\":null}",
	"{\"sourceObjects\":[null]}", "{\"sourceObjects\":[{\"name\":\"a\"}]}", "{\"sourceObjects\":[{\"name\":\"a\",\"objectPreconditions\":null}],\"destination\":null}",
	"{\"destination\":{\"contentType\":\"x\"}}", "{\"contentEncoding\":\"gzip\"}", "{\"size\":\"-1\"}", "\x00\x01\x02", strings.Repeat("[", 20000), "{\"generation\":\"abc\"}"}
var hostileRanges = []string{"", "bytes */*", "bytes 0-0/*", "bytes 0-9/10", "bytes 5-2/*", "bytes -1-5/*", "bytes 0--1/*", "bytes 3-12/13", "bytes 0-9223372036854775807/*", "bytes 9223372036854775807-9223372036854775807/*",
	"bytes */-5", "bytes */0", "bytes 0-9/5", "items 0-9/*", "bytes", "bytes 0-9", "bytes a-b/c", "bytes 0-9/*/3", "bytes 100-109/*"}

func pick(t *rapid.T, l string, xs []string) string { return rapid.SampledFrom(xs).Draw(t, l) }

func hostileQuery(t *rapid.T) url.Values {
	v := url.Values{}
	for _, k := range []string{"ifGenerationMatch", "ifGenerationNotMatch", "ifMetagenerationMatch", "ifMetagenerationNotMatch", "maxResults", "pageToken", "prefix", "delimiter", "alt", "uploadType", "name", "upload_id", "projection"} {
		if rapid.IntRange(0, 5).Draw(t, "q"+k) == 0 {
			switch k {
			case "alt":
				v.Set(k, pick(t, "alt", []string{"media", "json", "xml", ""}))
			case "uploadType":
				v.Set(k, pick(t, "ut", []string{"media", "multipart", "resumable", "bogus", ""}))
			case "pageToken":
				v.Set(k, pick(t, "pt", []string{"!!!", "AAAA", "CgFh", "%", ""}))
			case "name":
				v.Set(k, pick(t, "qn", hostileNames))
			case "upload_id":
				v.Set(k, pick(t, "uid", []string{"1", "2", "999", "-1", "abc", ""}))
			case "prefix", "delimiter":
				v.Set(k, pick(t, "pd", []string{"", "/", "a", "\x00", strings.Repeat("p", 3000)}))
			default:
				v.Set(k, pick(t, "num", hostileNums))
			}
		}
	}
	return v
}

func multipartBody(t *rapid.T) (string, string) {
	var buf bytes.Buffer
	mw := multipart.NewWriter(&buf)
	nparts := rapid.IntRange(0, 3).Draw(t, "nparts")
	for i := 0; i < nparts; i++ {
		p, _ := mw.CreatePart(textproto.MIMEHeader{"Content-Type": {pick(t, "pct", []string{"application/json", "text/plain", ""})}})
		_, _ = p.Write([]byte(pick(t, "pbody", hostileBodies)))
	}
	if rapid.IntRange(0, 3).Draw(t, "close") > 0 {
		_ = mw.Close()
	}
	body := buf.String()
	if rapid.IntRange(0, 3).Draw(t, "trunc") == 0 && len(body) > 0 {
		body = body[:rapid.IntRange(0, len(body)-1).Draw(t, "cut")]
	}
	ct := "multipart/related; boundary=" + mw.Boundary()
	switch rapid.IntRange(0, 5).Draw(t, "ctk") {
	case 0:
		ct = "multipart/related"
	case 1:
		ct = "multipart/related; boundary=wrong"
	case 2:
		ct = "text/plain"
	}
	return body, ct
}

// BatchPart: one request inside a batch.
type BatchPart struct {
	Method string `json:"method"`
	Path   string `json:"path"`
	Body   string `json:"body,omitempty"`
	CT     string `json:"ct,omitempty"`
	ID     string `json:"id,omitempty"`
	// CL, if set, is sent as the inner Content-Length instead of the true length of Body.
	CL string `json:"cl,omitempty"`
}

// BigPatchBody: a metadata patch larger than the 4 KiB buffers HTTP parsers start with.
var BigPatchBody = `{"metadata":{"big":"` + strings.Repeat("v", 5000) + `"}}`

// BatchBody renders a well-formed batch request body.
func BatchBody(parts []BatchPart, boundary string) string {
	var sb strings.Builder
	for i, p := range parts {
		fmt.Fprintf(&sb, "--%s\r\nContent-Type: application/http\r\n", boundary)
		id := p.ID
		if id == "" {
			id = fmt.Sprintf("<item%d>", i+1)
		}
		fmt.Fprintf(&sb, "Content-ID: %s\r\n\r\n", id)
		fmt.Fprintf(&sb, "%s %s HTTP/1.1\r\n", p.Method, p.Path)
		if p.CT != "" {
			fmt.Fprintf(&sb, "Content-Type: %s\r\n", p.CT)
		}
		if p.CL != "" {
			fmt.Fprintf(&sb, "Content-Length: %s\r\n", p.CL)
		} else if p.Body != "" {
			fmt.Fprintf(&sb, "Content-Length: %d\r\n", len(p.Body))
		}
		sb.WriteString("\r\n")
		sb.WriteString(p.Body)
		sb.WriteString("\r\n")
	}
	fmt.Fprintf(&sb, "--%s--\r\n", boundary)
	return sb.String()
}

// GenHostileReq draws one perturbed request.
func GenHostileReq() *rapid.Generator[Req] {
	return rapid.Custom(func(t *rapid.T) Req {
		b := url.PathEscape(pick(t, "bucket", hostileBuckets))
		n := pick(t, "name", hostileNames)
		esc := EscName(n)
		if rapid.IntRange(0, 3).Draw(t, "rawname") == 0 {
			esc = strings.ReplaceAll(esc, "%2F", "/")
		}
		qv := hostileQuery(t)
		r := Req{Headers: map[string]string{}}
		kind := rapid.SampledFrom([]string{"media", "multipart", "resumable-init", "resume", "resume", "get", "get", "public", "list", "patch", "patch", "delete", "delbucket", "newbucket",
			"compose", "compose", "rewrite", "rewrite", "batch", "weird", "weird"}).Draw(t, "kind")
		switch kind {
		case "media":
			r.Method, r.Path = "POST", "/upload/storage/v1/b/"+b+"/o"
			qv.Set("uploadType", "media")
			if rapid.Bool().Draw(t, "hasname") {
				qv.Set("name", n)
			}
			r.Body = BS(pick(t, "body", hostileBodies))
		case "multipart":
			r.Method, r.Path = "POST", "/upload/storage/v1/b/"+b+"/o"
			qv.Set("uploadType", "multipart")
			body, ct := multipartBody(t)
			r.Body, r.Headers["Content-Type"] = BS(body), ct
		case "resumable-init":
			r.Method, r.Path = "POST", "/upload/storage/v1/b/"+b+"/o"
			qv.Set("uploadType", "resumable")
			r.Body = BS(pick(t, "body", hostileBodies))
		case "resume":
			r.Method = pick(t, "m", []string{"PUT", "POST"})
			r.Path = "/upload/storage/v1/b/" + b + "/o"
			qv.Set("upload_id", pick(t, "uid", []string{"1", "2", "3", "999", "x"}))
			if cr := pick(t, "cr", hostileRanges); cr != "" {
				r.Headers["Content-Range"] = cr
			}
			r.Body = BS(strings.Repeat("d", rapid.SampledFrom([]int{0, 1, 10, 13}).Draw(t, "blen")))
		case "get":
			r.Method, r.Path = "GET", pick(t, "pre", []string{"", "/download"})+"/storage/v1/b/"+b+"/o/"+esc
			if rapid.Bool().Draw(t, "ae") {
				r.Headers["Accept-Encoding"] = "gzip"
			}
		case "public":
			r.Method, r.Path = "GET", "/"+b+"/"+strings.ReplaceAll(esc, "%2F", "/")
		case "list":
			r.Method, r.Path = "GET", "/storage/v1/b/"+b+"/o"
		case "patch":
			r.Method, r.Path = "PATCH", "/storage/v1/b/"+b+"/o/"+esc
			if rapid.IntRange(0, 3).Draw(t, "ctjson") > 0 {
				r.Headers["Content-Type"] = "application/json"
			}
			r.Body = BS(pick(t, "body", hostileBodies))
		case "delete":
			r.Method, r.Path = "DELETE", "/storage/v1/b/"+b+"/o/"+esc
		case "delbucket":
			r.Method, r.Path = "DELETE", "/storage/v1/b/"+b
		case "newbucket":
			r.Method, r.Path = "POST", "/storage/v1/b"
			r.Body = BS(pick(t, "body", append([]string{"{\"name\":\"newb\"}", "{\"name\":\"\"}", "{\"name\":\"a/b\"}"}, hostileBodies...)))
		case "compose":
			r.Method, r.Path = "POST", "/storage/v1/b/"+b+"/o/"+esc+"/compose"
			r.Headers["Content-Type"] = "application/json"
			r.Body = BS(pick(t, "body", hostileBodies))
		case "rewrite":
			r.Method = "POST"
			r.Path = "/storage/v1/b/" + b + "/o/" + esc + pick(t, "rw", []string{"/rewriteTo/b/bkt/o/dst", "/rewriteTo/b/" + b + "/o/" + esc, "/rewriteTo/b/bkt/o/a", "/rewriteTo/b/bkt", "/rewriteTo/b/", "/rewriteTo/b/bkt/o/", "/rewriteTo/b/bkt/o/x/rewriteTo/b/b2/o/y", "/rewriteTo/", "/copyTo/b/bkt/o/dst"})
			r.Body = BS(pick(t, "body", []string{"", "{}", "null"}))
		case "batch":
			r.Method, r.Path = "POST", "/batch/storage/v1"
			boundary := "batch_x"
			var parts []BatchPart
			for i, np := 0, rapid.IntRange(0, 3).Draw(t, "np"); i < np; i++ {
				parts = append(parts, BatchPart{Method: pick(t, "bm", []string{"GET", "DELETE", "PATCH", "POST", "BOGUS", ""}),
					Path: pick(t, "bp", []string{"/storage/v1/b/bkt/o/a", "/storage/v1/b/bkt/o", "/batch/storage/v1", "", "not a path", "/storage/v1/b/bkt/o/missing"}),
					Body: pick(t, "bb", []string{"", "{}", "null", "{\"metadata\":{\"k\":\"v\"}}", BigPatchBody}), CT: pick(t, "bct", []string{"", "application/json"}), ID: pick(t, "bid", []string{"", "<a>", "plain", "<", ">", "<>", "<<a>>"}),
					CL: pick(t, "bcl", []string{"", "", "", "0", "5", "100000", "4611686018427387904", "-1", "x"})})
			}
			body := BatchBody(parts, boundary)
			switch rapid.IntRange(0, 5).Draw(t, "bmut") {
			case 0:
				if len(body) > 0 {
					body = body[:rapid.IntRange(0, len(body)-1).Draw(t, "cut")]
				}
			case 1:
				body = strings.Replace(body, "application/http", "text/plain", 1)
			case 2:
				body = strings.Replace(body, " HTTP/1.1", "", 1)
			}
			r.Body = BS(body)
			r.Headers["Content-Type"] = pick(t, "bctype", []string{"multipart/mixed; boundary=" + boundary, "multipart/mixed", "multipart/mixed; boundary=other", "application/json"})
		default:
			r.Method = pick(t, "wm", []string{"GET", "POST", "PUT", "PATCH", "DELETE", "HEAD", "OPTIONS", "BREW"})
			r.Path = pick(t, "wp", []string{"/", "/b", "/storage/v1/b", "/storage/v1/b//o", "/storage/v1/b/bkt/o/", "/storage/v1/b/bkt/o/%00", "/storage/v1/b/bkt/o/%2F", "/o", "/b/bkt/o/a", "/b/bkt/o",
				"/storage/v1/b/bkt/o/a/b/c/../../x", "/storage/v1/b/bkt", "/upload/storage/v1/b/bkt/o", "/bkt", "/bkt/", "/favicon.ico", "/storage/v1/b/bkt/o/a%", "/download/storage/v1/b/bkt/o"})
			r.Body = BS(pick(t, "body", hostileBodies))
		}
		if rapid.IntRange(0, 7).Draw(t, "gzip") == 0 {
			r.Headers["Content-Encoding"] = "gzip"
			if rapid.Bool().Draw(t, "realgzip") {
				r.Body = BS(Gzip(r.Body.B()))
			}
		}
		for _, h := range []string{"X-Forwarded-Host", "Forwarded", "Authority", "X-Forwarded-Proto"} {
			if rapid.IntRange(0, 11).Draw(t, "h"+h) == 0 {
				r.Headers[h] = pick(t, "hv", []string{"", "evil.test", "host=\"x\";;", "https", ",,,", "a,b"})
			}
		}
		r.Path += q(qv)
		return r
	})
}

// ValidPath: would net/http accept this request line? (otherwise the probe never reaches the emulator)
func ValidPath(p string) bool {
	if !strings.HasPrefix(p, "/") || strings.ContainsAny(p, " \x00\r\n\x7f") {
		return false
	}
	for i := 0; i < len(p); i++ {
		if p[i] < 0x20 {
			return false
		}
	}
	if _, err := url.ParseRequestURI(p); err != nil {
		return false
	}
	// the harness builds the request from "http://host" + p, where a '#' starts a fragment that is parsed as well
	// (ParseRequestURI above does not look at fragments): what cannot be built cannot be sent
	_, err := http.NewRequest("GET", "http://"+Host+p, nil)
	return err == nil
}
