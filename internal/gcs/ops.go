package gcs

import (
	"bytes"
	"crypto/md5"
	"encoding/base64"
	"encoding/json"
	"fmt"
	"net/url"
	"sort"
	"strconv"
	"strings"
)

// ---------------------------------------------------------------- request language

// Cond: one precondition value. K: "" unset | cur | other | zero | bad | prev | num
type Cond struct {
	K string `json:"k,omitempty"`
	N int64  `json:"n,omitempty"`
}

type Conds struct {
	GM  Cond `json:"gm"`
	GNM Cond `json:"gnm"`
	MM  Cond `json:"mm"`
	MNM Cond `json:"mnm"`
}

func (c Conds) Any() bool { return c.GM.K != "" || c.GNM.K != "" || c.MM.K != "" || c.MNM.K != "" }
func (c Conds) Count() int {
	n := 0
	for _, x := range []Cond{c.GM, c.GNM, c.MM, c.MNM} {
		if x.K != "" {
			n++
		}
	}
	return n
}

// Chunk: one request of a resumable session. K: next | resend | query | final
type Chunk struct {
	K     string `json:"k"`
	N     int    `json:"n,omitempty"`  // bytes to send (next / resend)
	Lo    int    `json:"lo,omitempty"` // resend: how far back from the received offset to start
	Post  bool   `json:"post,omitempty"`
	No308 bool   `json:"no308,omitempty"`
	Gzip  bool   `json:"gzip,omitempty"`
}

// Payload describes object content deterministically.
type Payload struct {
	K    string `json:"k"` // empty | one | bin | text | big
	N    int    `json:"n,omitempty"`
	Seed int    `json:"seed,omitempty"`
}

func (p Payload) Bytes() []byte {
	switch p.K {
	case "empty", "":
		return []byte{}
	case "one":
		return []byte{byte(p.Seed)}
	case "bin":
		b := make([]byte, 256)
		for i := range b {
			b[i] = byte(i + p.Seed)
		}
		return b
	case "text":
		return []byte(fmt.Sprintf("payload-%d-%s", p.Seed, strings.Repeat("x", p.N)))
	case "rep": // long and compressible: its gzip form is much shorter than the payload
		return []byte(strings.Repeat(fmt.Sprintf("line %d of a compressible payload\n", p.Seed), 100+p.N*60))
	case "framing":
		// bytes that look like the framing of the upload protocols: line breaks at both ends, a multipart delimiter,
		// a part header, a gzip magic number
		return []byte([]string{"\r\n", "x\r\n", "\r\nx", "\n", "line1\r\nline2\r\n", "--", "\r\n--boundary--\r\n", "\r\n--x\r\nContent-Type: a/b\r\n\r\ny",
			"\x1f\x8b\x08\x00", "a\r\n\r\n", "{\"name\":\"zz\"}", "\r", " \t "}[p.Seed%13] + strings.Repeat("\r\n", p.N%3))
	case "big":
		n := p.N
		if n == 0 {
			n = 3*256*1024 + 1
		}
		b := make([]byte, n)
		x := uint32(p.Seed*2654435761 + 12345)
		for i := range b {
			x = x*1664525 + 1013904223
			b[i] = byte(x >> 24)
		}
		return b
	}
	return nil
}

type Src struct {
	Name string `json:"name"`
	GM   Cond   `json:"gm,omitempty"`
}

type Op struct {
	K      string `json:"op"` // upload get getmeta list patch delete compose copy restart dropsidecar
	Bucket string `json:"bucket,omitempty"`
	Name   string `json:"name,omitempty"`

	Proto  string            `json:"proto,omitempty"` // media | multipart | resumable
	Data   Payload           `json:"data,omitempty"`
	Gzip   bool              `json:"gzip,omitempty"`
	MD5    string            `json:"md5,omitempty"` // "" | ok | wrong | notb64
	CT     string            `json:"ct,omitempty"`
	Meta   map[string]string `json:"meta,omitempty"`
	Conds  Conds             `json:"conds,omitempty"`
	Chunks []Chunk           `json:"chunks,omitempty"`
	// RetryFinal: after a resumable upload was rejected for its declared MD5, send the finalisation once more.
	RetryFinal bool `json:"retryfinal,omitempty"`
	// Chunked: the request bodies of this upload carry no Content-Length.
	Chunked bool `json:"chunked,omitempty"`
	// EmptyMeta: send "metadata": {} (present but empty) when Meta is empty.
	EmptyMeta bool `json:"emptymeta,omitempty"`

	Form     string `json:"form,omitempty"`     // get: json | download | public
	RawSlash bool   `json:"rawslash,omitempty"` // get: leave '/' in the name unescaped

	Set     map[string]string `json:"set,omitempty"`     // patch: contentType cacheControl contentDisposition contentLanguage
	MetaSet map[string]string `json:"metaset,omitempty"` // patch: metadata keys
	RO      map[string]string `json:"ro,omitempty"`      // patch: attempts on read-only fields (generation metageneration size md5Hash name bucket)
	BadBody string            `json:"badbody,omitempty"` // patch/compose: send this malformed body instead

	Srcs      []Src  `json:"srcs,omitempty"` // compose
	DstBucket string `json:"dstbucket,omitempty"`
	DstName   string `json:"dstname,omitempty"`

	Prefix string `json:"prefix,omitempty"`
	Delim  string `json:"delim,omitempty"`
	Max    string `json:"max,omitempty"`
	Token  string `json:"token,omitempty"` // list: malformed token to send ("" = follow real tokens)
}

// BadNumbers: precondition values that are not decimal integers.
var BadNumbers = []string{"abc", "0x0", "0b10", "0o7", "1_0", "0x1F", " 1", "1 ", "1.0", "1e3", "\uff11", "9223372036854775808", "0X0"}

// ---------------------------------------------------------------- model

type MObj struct {
	Data      []byte
	CT        string
	CTSet     bool // a content type was sent explicitly
	Meta      map[string]string
	Fields    map[string]string // cacheControl contentDisposition contentLanguage
	Gen       int64
	Metagen   int64
	Composite bool // composed objects carry no MD5
}

func (o *MObj) MD5() string {
	h := md5.Sum(o.Data)
	return base64.StdEncoding.EncodeToString(h[:])
}

func (o *MObj) clone() *MObj {
	c := *o
	c.Meta = map[string]string{}
	for k, v := range o.Meta {
		c.Meta[k] = v
	}
	c.Fields = map[string]string{}
	for k, v := range o.Fields {
		c.Fields[k] = v
	}
	return &c
}

type Model struct {
	Buckets map[string]map[string]*MObj
	Hist    map[string][]int64 // bucket/name -> every generation ever reported
}

func NewModel() *Model {
	return &Model{Buckets: map[string]map[string]*MObj{}, Hist: map[string][]int64{}}
}

func (m *Model) Get(b, n string) *MObj {
	if m.Buckets[b] == nil {
		return nil
	}
	return m.Buckets[b][n]
}

func (m *Model) put(b, n string, o *MObj) {
	if m.Buckets[b] == nil {
		m.Buckets[b] = map[string]*MObj{}
	}
	m.Buckets[b][n] = o
}

func (m *Model) Names(b string) []string {
	var out []string
	for n := range m.Buckets[b] {
		out = append(out, n)
	}
	sort.Strings(out)
	return out
}

func (m *Model) NumObjects() int {
	n := 0
	for _, b := range m.Buckets {
		n += len(b)
	}
	return n
}

func hk(b, n string) string { return b + "/" + n }

func (m *Model) maxGen(b, n string) int64 {
	var mx int64
	for _, g := range m.Hist[hk(b, n)] {
		if g > mx {
			mx = g
		}
	}
	return mx
}

// ---------------------------------------------------------------- condition resolution

type condEval struct {
	Query       url.Values
	Bad         bool // unparsable value supplied
	FailMatch   bool // some supplied match-kind condition fails
	FailNot     bool // some supplied not-match condition fails
	AnyNotKind  bool
	Unspecified bool // absent object: "must not exist" combined with other conditions
	OK412       bool // 412 is an acceptable answer
	OK304       bool // 304 is an acceptable answer
}

func (e condEval) Fails() bool { return e.FailMatch || e.FailNot }

// evalConds resolves symbolic values against the current state and applies the
// truth table of the property text.
func (m *Model) evalConds(c Conds, b, n string) condEval {
	cur := m.Get(b, n)
	ev := condEval{Query: url.Values{}}
	prev := int64(12345)
	if h := m.Hist[hk(b, n)]; len(h) > 0 {
		prev = h[len(h)-1]
	}
	resolve := func(x Cond, isGen bool) (string, int64, bool) {
		var curv int64
		if cur != nil {
			if isGen {
				curv = cur.Gen
			} else {
				curv = cur.Metagen
			}
		} else if isGen {
			curv = prev
		} else {
			curv = 1
		}
		switch x.K {
		case "cur":
			return strconv.FormatInt(curv, 10), curv, true
		case "other":
			return strconv.FormatInt(curv+1, 10), curv + 1, true
		case "zero":
			return "0", 0, true
		case "prev":
			return strconv.FormatInt(prev, 10), prev, true
		case "num":
			return strconv.FormatInt(x.N, 10), x.N, true
		case "bad":
			if x.N > 0 {
				// not decimal integers, although a lenient parser (base prefixes, digit separators, blanks) reads some as numbers
				return BadNumbers[int(x.N)%len(BadNumbers)], 0, false
			}
			if isGen {
				return "abc", 0, false
			}
			return "1x", 0, false
		}
		return "", 0, true
	}
	type ent struct {
		name  string
		c     Cond
		isGen bool
		match bool
	}
	for _, e := range []ent{{"ifGenerationMatch", c.GM, true, true}, {"ifGenerationNotMatch", c.GNM, true, false},
		{"ifMetagenerationMatch", c.MM, false, true}, {"ifMetagenerationNotMatch", c.MNM, false, false}} {
		if e.c.K == "" {
			continue
		}
		if !e.isGen && cur != nil && cur.Metagen == 0 {
			continue // object without sidecar (metageneration unknown): metageneration conditions are not sent
		}
		s, v, ok := resolve(e.c, e.isGen)
		ev.Query.Set(e.name, s)
		if !ok {
			ev.Bad = true
			continue
		}
		if !e.match {
			ev.AnyNotKind = true
		}
		if cur == nil {
			if e.name == "ifGenerationMatch" && v == 0 {
				continue // must not exist: holds
			}
			// every other condition fails on an absent object
			if e.match {
				ev.FailMatch = true
			} else {
				ev.FailNot = true
			}
			continue
		}
		var curv int64
		if e.isGen {
			curv = cur.Gen
		} else {
			curv = cur.Metagen
		}
		switch {
		case e.name == "ifGenerationMatch" && v == 0:
			ev.FailMatch = true
		case e.match && v != curv:
			ev.FailMatch = true
		case !e.match && v == curv:
			ev.FailNot = true
		}
	}
	if cur == nil {
		switch {
		case ev.Bad:
		case ev.FailMatch || ev.FailNot:
			// also when "must not exist" (which holds) comes with further conditions: C04 lets only 'no condition' or
			// 'must not exist' pass on an absent object, every other supplied condition fails there
			// the property fixes 412 here; 304 is tolerated when a not-match condition was supplied
			ev.OK412, ev.OK304 = true, ev.AnyNotKind
		}
	} else {
		ev.OK412, ev.OK304 = ev.FailMatch, ev.FailNot
	}
	return ev
}

// ---------------------------------------------------------------- JSON object

// JObj: the fields of an object resource the checks look at.
type JObj struct {
	Kind               string            `json:"kind"`
	Name               string            `json:"name"`
	Bucket             string            `json:"bucket"`
	Generation         string            `json:"generation"`
	Metageneration     string            `json:"metageneration"`
	Size               string            `json:"size"`
	Md5Hash            string            `json:"md5Hash"`
	ContentType        string            `json:"contentType"`
	ContentEncoding    string            `json:"contentEncoding"`
	CacheControl       string            `json:"cacheControl"`
	ContentDisposition string            `json:"contentDisposition"`
	ContentLanguage    string            `json:"contentLanguage"`
	Metadata           map[string]string `json:"metadata"`
	TimeCreated        string            `json:"timeCreated"`
	Updated            string            `json:"updated"`
	SelfLink           string            `json:"selfLink"`
	MediaLink          string            `json:"mediaLink"`
	ComponentCount     int64             `json:"componentCount"`
}

func (j *JObj) Gen() int64 {
	v, _ := strconv.ParseInt(j.Generation, 10, 64)
	return v
}
func (j *JObj) Metagen() int64 {
	v, _ := strconv.ParseInt(j.Metageneration, 10, 64)
	return v
}

func ParseObj(body []byte) (*JObj, error) {
	var j JObj
	dec := json.NewDecoder(bytes.NewReader(body))
	if err := dec.Decode(&j); err != nil {
		return nil, err
	}
	return &j, nil
}

type JList struct {
	Kind          string   `json:"kind"`
	NextPageToken string   `json:"nextPageToken"`
	Items         []JObj   `json:"items"`
	Prefixes      []string `json:"prefixes"`
}

type JErr struct {
	Error struct {
		Code    int    `json:"code"`
		Message string `json:"message"`
	} `json:"error"`
}
