// Package gcs: request language, in-process harness and reference model for the
// Cloud Storage emulator checks.
package gcs

import (
	"bytes"
	"compress/gzip"
	"context"
	"fmt"
	"io"
	"net/http"
	"net/http/httptest"
	"net/url"
	"os"
	"runtime/debug"
	"sort"
	"strings"
	"time"

	"github.com/fullstorydev/emulators/storage/gcsemu"

	"verif/internal/vt"
)

type BS = vt.BS

var Stores = []string{"mem", "file"}

const Host = "gcs.test"

// Emu is one emulator instance driven through its registered http mux.
type Emu struct {
	StoreKind string
	Dir       string
	ownDir    bool
	G         *gcsemu.GcsEmu
	Mux       *http.ServeMux
	Wrap      func(gcsemu.Store) gcsemu.Store
	// Hook, when set, sees every request/response pair served by Do.
	Hook func(req *Req, resp *Resp)
	// Inline: serve on the calling goroutine (needed when a scheduler identifies workers by goroutine; such
	// checks detect hangs themselves).
	Inline bool
	// NoLength: request bodies are sent without a known length (as with chunked transfer encoding).
	NoLength bool
}

func NewEmu(store, dir string) (*Emu, error) { return NewEmuWrap(store, dir, nil) }

func NewEmuWrap(store, dir string, wrap func(gcsemu.Store) gcsemu.Store) (*Emu, error) {
	e := &Emu{StoreKind: store, Dir: dir, Wrap: wrap}
	if store == "file" && dir == "" {
		d, err := os.MkdirTemp("", "gcsfile")
		if err != nil {
			return nil, err
		}
		e.Dir, e.ownDir = d, true
	}
	e.start()
	return e, nil
}

func (e *Emu) start() {
	var st gcsemu.Store
	if e.StoreKind == "file" {
		st = gcsemu.NewFileStore(e.Dir)
	} else {
		st = gcsemu.NewMemStore()
	}
	if e.Wrap != nil {
		st = e.Wrap(st)
	}
	e.G = gcsemu.NewGcsEmu(gcsemu.Options{Store: st})
	e.Mux = http.NewServeMux()
	e.G.Register(e.Mux)
}

// Restart replaces the emulator by a new one on the same directory (file store only).
func (e *Emu) Restart() { e.start() }

func (e *Emu) Close() {
	if e.ownDir && e.Dir != "" {
		_ = os.RemoveAll(e.Dir)
	}
}

// Req is one HTTP request.
type Req struct {
	Method  string            `json:"method"`
	Path    string            `json:"path"` // escaped path + "?" + query
	Headers map[string]string `json:"headers,omitempty"`
	Body    BS                `json:"body,omitempty"`
}

type Resp struct {
	Status int
	Header http.Header
	Body   []byte
	Panic  string
}

// Do serves the request in-process.
func (e *Emu) Do(r *Req) (resp *Resp) { return e.DoCtx(context.Background(), r) }

func (e *Emu) DoCtx(ctx context.Context, r *Req) (resp *Resp) {
	resp = &Resp{}
	if e.Hook != nil {
		defer func() { e.Hook(r, resp) }()
	}
	var body io.Reader = bytes.NewReader(r.Body.B())
	if e.NoLength && len(r.Body) > 0 {
		// a body of unknown length (chunked transfer encoding on the wire): ContentLength is -1 for the handler
		body = io.MultiReader(body)
	}
	req, err := http.NewRequestWithContext(ctx, r.Method, "http://"+Host+r.Path, body)
	if err != nil {
		// not representable as an HTTP request: the harness's fault, never a finding
		panic("HARNESS: cannot build request " + r.Method + " " + r.Path + ": " + err.Error())
	}
	for k, v := range r.Headers {
		req.Header.Set(k, v)
	}
	req.RequestURI = r.Path
	if e.Inline {
		rec := httptest.NewRecorder()
		defer func() {
			if p := recover(); p != nil {
				resp.Panic = fmt.Sprintf("%v\n%s", p, debug.Stack())
				resp.Status = rec.Code
				resp.Header = rec.Header()
				resp.Body = rec.Body.Bytes()
			}
		}()
		e.Mux.ServeHTTP(rec, req)
		res := rec.Result()
		resp.Status = res.StatusCode
		resp.Header = res.Header
		resp.Body = rec.Body.Bytes()
		return resp
	}
	// The handler runs on its own goroutine so that a request that never returns (a lock taken twice, a lost
	// wake-up) becomes a reported failure instead of a wedged check. HangAfter is far above what any request needs.
	cctx, cancel := context.WithCancel(ctx)
	defer cancel()
	req = req.WithContext(cctx)
	rec := httptest.NewRecorder()
	type outcome struct{ panicked string }
	done := make(chan outcome, 1)
	gid := make(chan int64, 1)
	go func() {
		var o outcome
		defer func() {
			if p := recover(); p != nil {
				o.panicked = fmt.Sprintf("%v\n%s", p, debug.Stack())
			}
			done <- o
		}()
		gid <- vt.Goid()
		e.Mux.ServeHTTP(rec, req)
	}()
	id := <-gid
	var o outcome
wait:
	for round := 0; ; round++ {
		select {
		case o = <-done:
			break wait
		case <-time.After(HangAfter):
		}
		// blocked in a lock / channel wait in every sample = hung; anything else = an overloaded machine
		stuck, states := vt.Stuck(id)
		if stuck {
			cancel() // lets a handler that waits for a lock with the request context give up
			select {
			case <-done:
			case <-time.After(5 * time.Second):
			}
			resp.Panic = fmt.Sprintf("HANG: %s %s did not return within %s; its goroutine sits in %v", r.Method, r.Path, HangAfter, states)
			return resp
		}
		if round >= 4 {
			panic(fmt.Sprintf("HARNESS: %s %s has not returned after %d x %s but is not blocked (states %v): machine too slow to judge", r.Method, r.Path, round+1, HangAfter, states))
		}
	}
	if o.panicked != "" {
		resp.Panic = o.panicked
		resp.Status = rec.Code
		resp.Header = rec.Header()
		resp.Body = rec.Body.Bytes()
		return resp
	}
	res := rec.Result()
	resp.Status = res.StatusCode
	resp.Header = res.Header
	resp.Body = rec.Body.Bytes()
	return resp
}

// HangAfter: a request that has not returned after this long is reported as hung.
var HangAfter = 60 * time.Second

// ---------------------------------------------------------------- URL builders

// EscName escapes an object name the way the Go client does (every '/' escaped).
func EscName(name string) string { return url.PathEscape(name) }

func q(v url.Values) string {
	if len(v) == 0 {
		return ""
	}
	keys := make([]string, 0, len(v))
	for k := range v {
		keys = append(keys, k)
	}
	sort.Strings(keys)
	var sb strings.Builder
	for _, k := range keys {
		for _, x := range v[k] {
			if sb.Len() > 0 {
				sb.WriteByte('&')
			}
			sb.WriteString(url.QueryEscape(k) + "=" + url.QueryEscape(x))
		}
	}
	return "?" + sb.String()
}

func ObjPath(bucket, name string) string {
	return "/storage/v1/b/" + url.PathEscape(bucket) + "/o/" + EscName(name)
}

func Gzip(b []byte) []byte {
	var buf bytes.Buffer
	w := gzip.NewWriter(&buf)
	_, _ = w.Write(b)
	_ = w.Close()
	return buf.Bytes()
}
