package gcs

import (
	"bytes"
	"crypto/md5"
	"encoding/base64"
	"encoding/json"
	"fmt"
	"mime/multipart"
	"net/textproto"
	"net/url"
	"os"
	"path/filepath"
	"strconv"
	"strings"
)

// Runner executes operations against an emulator and a model side by side.
type Runner struct {
	E       *Emu
	M       *Model
	N       int             // steps executed
	Labels  map[string]bool // what happened (for evidence)
	Deleted map[string]bool // bucket/name ever deleted or never created but probed
	Buckets map[string]bool // buckets that must exist
	// counters for non-triviality rules
	Writes, Patches, Failed, Deletes, Recreates, AdjacentWrites, ResumableMulti, Restarts, Probes, Skipped int
	// FileNames: the program is meant to stay within names that the file store can hold; a request whose name is in
	// directory conflict with a live object at that moment is skipped (on both stores, so that traces stay aligned).
	FileNames bool
	lastWrite string
	formRot   int
	SkipList  bool // do not compare listing order (checks that own listing semantics do it themselves)
}

func NewRunner(e *Emu) *Runner {
	return &Runner{E: e, M: NewModel(), Labels: map[string]bool{}, Deleted: map[string]bool{}, Buckets: map[string]bool{}}
}

func (r *Runner) label(l string) { r.Labels[l] = true }

func panicMsg(p string) string {
	lines := strings.Split(p, "\n")
	if len(lines) > 14 {
		lines = lines[:14]
	}
	return "panic: " + strings.Join(lines, "\n")
}

func condQuery(v url.Values, extra url.Values) url.Values {
	out := url.Values{}
	for k, x := range v {
		out[k] = x
	}
	for k, x := range extra {
		out[k] = x
	}
	return out
}

// ---------------------------------------------------------------- step dispatch

// Do runs one operation; returns "" or a description of the mismatch.
func (r *Runner) Do(op *Op) string {
	r.N++
	var mis string
	if r.FileNames && op.K != "probe" && r.unrepresentable(op) {
		// A name that is a directory of (or lies below) a live object cannot be a file of the file store at this
		// moment: outside the stated domain ("names representable as files"), so the request is not sent.
		r.label("skipped-name-not-representable-now")
		r.Skipped++
		return ""
	}
	switch op.K {
	case "upload":
		mis = r.upload(op)
	case "get":
		mis = r.get(op)
	case "getmeta":
		mis = r.getmeta(op)
	case "patch":
		mis = r.patch(op)
	case "delete":
		mis = r.delete(op)
	case "compose":
		mis = r.compose(op)
	case "copy":
		mis = r.copy(op)
	case "list":
		mis = r.list(op)
	case "restart":
		if r.E.StoreKind == "file" {
			r.E.Restart()
			r.Restarts++
			r.label("restart")
		}
	case "dropsidecar":
		mis = r.dropSidecar(op)
	case "probe":
		mis = r.probe(op)
	default:
		return "runner: unknown op " + op.K
	}
	if mis != "" {
		return op.K + ": " + mis
	}
	return ""
}

// DirConflict: n is a '/'-prefix of a live object of bucket b, or a live object is a '/'-prefix of n.
func (r *Runner) DirConflict(b, n string) bool {
	for o := range r.M.Buckets[b] {
		if len(o) > len(n) && o[:len(n)+1] == n+"/" || len(n) > len(o) && n[:len(o)+1] == o+"/" {
			return true
		}
	}
	return false
}

func (r *Runner) unrepresentable(op *Op) bool {
	switch op.K {
	case "upload", "get", "getmeta", "patch", "delete", "dropsidecar":
		return r.DirConflict(op.Bucket, op.Name)
	case "compose":
		for _, s := range op.Srcs {
			if r.DirConflict(op.Bucket, s.Name) {
				return true
			}
		}
		return r.DirConflict(op.Bucket, op.Name)
	case "copy":
		return r.DirConflict(op.Bucket, op.Name) || r.DirConflict(op.DstBucket, op.DstName)
	}
	return false
}

// ---------------------------------------------------------------- uploads

func declaredMD5(kind string, data []byte) string {
	switch kind {
	case "ok":
		h := md5.Sum(data)
		return base64.StdEncoding.EncodeToString(h[:])
	case "wrong":
		h := md5.Sum(append(append([]byte{}, data...), 'x'))
		return base64.StdEncoding.EncodeToString(h[:])
	case "notb64":
		return "!!not-base64!!"
	}
	return ""
}

func metaJSON(op *Op, data []byte) []byte {
	m := map[string]interface{}{"name": op.Name}
	if op.CT != "" {
		m["contentType"] = op.CT
	}
	if s := declaredMD5(op.MD5, data); s != "" {
		m["md5Hash"] = s
	}
	if len(op.Meta) > 0 {
		m["metadata"] = op.Meta
	} else if op.EmptyMeta {
		m["metadata"] = map[string]string{} // present but empty
	}
	b, _ := json.Marshal(m)
	return b
}

func (r *Runner) upload(op *Op) string {
	if op.Chunked {
		r.E.NoLength = true
		defer func() { r.E.NoLength = false }()
		r.label("upload-without-content-length")
	}
	data := op.Data.Bytes()
	b, n := op.Bucket, op.Name
	ce := r.M.evalConds(op.Conds, b, n)
	md5kind := op.MD5
	meta := op.Meta
	if op.Proto == "media" {
		md5kind, meta = "", nil // the simple protocol carries neither
	}
	var resp *Resp
	body := func(raw []byte, h map[string]string, gz bool) BS {
		if gz {
			h["Content-Encoding"] = "gzip"
			return BS(Gzip(raw))
		}
		return BS(raw)
	}
	switch op.Proto {
	case "media":
		qv := condQuery(ce.Query, url.Values{"uploadType": {"media"}, "name": {n}})
		h := map[string]string{}
		if op.CT != "" {
			h["Content-Type"] = op.CT
		}
		resp = r.E.Do(&Req{Method: "POST", Path: "/upload/storage/v1/b/" + url.PathEscape(b) + "/o" + q(qv), Headers: h, Body: body(data, h, op.Gzip)})
	case "multipart":
		var buf bytes.Buffer
		mw := multipart.NewWriter(&buf)
		p1, _ := mw.CreatePart(textproto.MIMEHeader{"Content-Type": {"application/json; charset=UTF-8"}})
		_, _ = p1.Write(metaJSON(op, data))
		ph := textproto.MIMEHeader{}
		if op.CT != "" {
			ph.Set("Content-Type", op.CT)
		}
		p2, _ := mw.CreatePart(ph)
		_, _ = p2.Write(data)
		_ = mw.Close()
		qv := condQuery(ce.Query, url.Values{"uploadType": {"multipart"}})
		h := map[string]string{"Content-Type": "multipart/related; boundary=" + mw.Boundary()}
		resp = r.E.Do(&Req{Method: "POST", Path: "/upload/storage/v1/b/" + url.PathEscape(b) + "/o" + q(qv), Headers: h, Body: body(buf.Bytes(), h, op.Gzip)})
	case "resumable":
		var mis string
		resp, mis = r.resumable(op, data, ce)
		if mis != "" {
			return mis
		}
	default:
		return "unknown protocol " + op.Proto
	}
	if resp.Panic != "" {
		return panicMsg(resp.Panic)
	}
	r.label("proto=" + op.Proto)
	if op.Gzip {
		r.label("gzip-request-body")
	}
	if len(data) == 0 {
		r.label("empty-payload")
	}
	if len(data) > 256*1024 {
		r.label("multi-chunk-payload")
	}
	// ---- expectation
	badMD5 := md5kind == "wrong" || md5kind == "notb64"
	fail := func(ok func(int) bool, what string) string {
		if !ok(resp.Status) {
			return fmt.Sprintf("%s: got HTTP %d %s", what, resp.Status, clip(resp.Body))
		}
		r.Failed++
		return r.errBody(resp)
	}
	switch {
	case ce.Bad:
		return fail(func(s int) bool { return s == 400 }, "unparsable precondition must give 400")
	case badMD5 && (ce.Fails() || ce.Unspecified):
		return fail(func(s int) bool {
			return s == 400 || (s == 412 && ce.OK412) || (s == 304 && ce.OK304) || ce.Unspecified && s == 412
		}, "bad MD5 and failing precondition")
	case badMD5:
		r.label("md5-rejected")
		return fail(func(s int) bool { return s >= 400 && s < 500 }, "declared MD5 does not match: want 4xx")
	case ce.Unspecified:
		if resp.Status != 200 {
			return fail(func(s int) bool { return s == 412 || s == 304 }, "must-not-exist plus other conditions on an absent object")
		}
	case ce.Fails():
		r.label("precondition-failed")
		return fail(func(s int) bool { return (s == 412 && ce.OK412) || (s == 304 && ce.OK304) }, fmt.Sprintf("failed precondition (412 ok=%v, 304 ok=%v)", ce.OK412, ce.OK304))
	}
	if resp.Status != 200 {
		return fmt.Sprintf("valid upload rejected: HTTP %d %s", resp.Status, clip(resp.Body))
	}
	obj := &MObj{Data: data, CT: op.CT, CTSet: op.CT != "", Meta: map[string]string{}, Fields: map[string]string{}, Metagen: 1}
	for k, v := range meta {
		obj.Meta[k] = v
	}
	return r.contentWritten(b, n, obj, resp, resp.Body, true)
}

// contentWritten validates the response of a successful content write and updates the model.
func (r *Runner) contentWritten(b, n string, obj *MObj, resp *Resp, objJSON []byte, headers bool) string {
	j, err := ParseObj(objJSON)
	if err != nil {
		return fmt.Sprintf("response is not an object resource: %v: %s", err, clip(objJSON))
	}
	prevMax := r.M.maxGen(b, n)
	if j.Gen() <= prevMax {
		return fmt.Sprintf("generation %d is not greater than an earlier generation %d of the same name", j.Gen(), prevMax)
	}
	if j.Metagen() != 1 {
		return fmt.Sprintf("metageneration after a content write is %d, want 1", j.Metagen())
	}
	if headers {
		if g := resp.Header.Get("X-Goog-Generation"); g != j.Generation {
			return fmt.Sprintf("x-goog-generation header %q != body generation %q", g, j.Generation)
		}
		if g := resp.Header.Get("X-Goog-Metageneration"); g != j.Metageneration {
			return fmt.Sprintf("x-goog-metageneration header %q != body %q", g, j.Metageneration)
		}
	}
	obj.Gen = j.Gen()
	if r.M.Get(b, n) == nil && len(r.M.Hist[hk(b, n)]) > 0 {
		r.Recreates++
		r.label("delete-and-recreate")
	}
	if r.lastWrite == hk(b, n) {
		r.AdjacentWrites++
		r.label("back-to-back-writes-of-one-name")
	}
	r.lastWrite = hk(b, n)
	r.M.put(b, n, obj)
	r.M.Hist[hk(b, n)] = append(r.M.Hist[hk(b, n)], obj.Gen)
	r.Buckets[b] = true
	delete(r.Deleted, hk(b, n))
	r.Writes++
	return r.matchObj(j, b, n, obj, "write response")
}

// matchObj compares an object resource with the model object.
func (r *Runner) matchObj(j *JObj, b, n string, o *MObj, where string) string {
	if j.Name != n || j.Bucket != b {
		return fmt.Sprintf("%s: resource is %s/%s, want %s/%s", where, j.Bucket, j.Name, b, n)
	}
	if j.Gen() != o.Gen || j.Metagen() != o.Metagen {
		return fmt.Sprintf("%s: generation/metageneration %s/%s, want %d/%d", where, j.Generation, j.Metageneration, o.Gen, o.Metagen)
	}
	if sz := j.Size; sz != strconv.Itoa(len(o.Data)) && !(sz == "" && len(o.Data) == 0) { // "size" is omitted for 0 (omitempty in the API struct)
		return fmt.Sprintf("%s: size %q, want %d", where, j.Size, len(o.Data))
	}
	if o.Composite {
		if j.Md5Hash != "" && j.Md5Hash != o.MD5() {
			return fmt.Sprintf("%s: md5Hash %q of a composite object is neither absent nor the real one", where, j.Md5Hash)
		}
	} else if j.Md5Hash != o.MD5() {
		return fmt.Sprintf("%s: md5Hash %q, want %q", where, j.Md5Hash, o.MD5())
	}
	if !o.Composite && j.ComponentCount != 0 {
		// only compose makes composite objects; being used as a SOURCE of a compose must not turn an object into one
		return fmt.Sprintf("%s: componentCount %d on an object that was never composed", where, j.ComponentCount)
	}
	if o.CTSet && j.ContentType != o.CT {
		return fmt.Sprintf("%s: contentType %q, want %q", where, j.ContentType, o.CT)
	}
	if len(j.Metadata) != len(o.Meta) {
		return fmt.Sprintf("%s: metadata %v, want %v", where, j.Metadata, o.Meta)
	}
	for k, v := range o.Meta {
		if j.Metadata[k] != v {
			return fmt.Sprintf("%s: metadata %v, want %v", where, j.Metadata, o.Meta)
		}
	}
	for k, v := range map[string]string{"cacheControl": j.CacheControl, "contentDisposition": j.ContentDisposition, "contentLanguage": j.ContentLanguage} {
		if o.Fields[k] != v {
			return fmt.Sprintf("%s: %s %q, want %q", where, k, v, o.Fields[k])
		}
	}
	return ""
}

func (r *Runner) resumable(op *Op, data []byte, ce condEval) (*Resp, string) {
	b, n := op.Bucket, op.Name
	qv := condQuery(ce.Query, url.Values{"uploadType": {"resumable"}, "name": {n}})
	init := r.E.Do(&Req{Method: "POST", Path: "/upload/storage/v1/b/" + url.PathEscape(b) + "/o" + q(qv),
		Headers: map[string]string{"Content-Type": "application/json; charset=UTF-8", "X-Upload-Content-Type": op.CT}, Body: BS(metaJSON(op, data))})
	if init.Panic != "" {
		return init, ""
	}
	if ce.Bad {
		return init, ""
	}
	if init.Status != 200 {
		return nil, fmt.Sprintf("resumable initiation failed: HTTP %d %s", init.Status, clip(init.Body))
	}
	loc := init.Header.Get("Location")
	u, err := url.Parse(loc)
	if err != nil || u.Query().Get("upload_id") == "" {
		return nil, fmt.Sprintf("resumable initiation for object %q returned a Location a client cannot follow: %q (upload_id not recoverable)", n, loc)
	}
	path := u.EscapedPath() + "?" + u.RawQuery
	N := len(data)
	recv := 0
	nreq := 1
	interesting := false
	send := func(c Chunk, rng string, part []byte) *Resp {
		h := map[string]string{"Content-Range": rng}
		if c.No308 {
			h["X-Guploader-No-308"] = "yes"
		}
		bd := BS(part)
		if c.Gzip && len(part) > 0 {
			h["Content-Encoding"] = "gzip"
			bd = BS(Gzip(part))
		}
		m := "PUT"
		if c.Post {
			m = "POST"
		}
		nreq++
		return r.E.Do(&Req{Method: m, Path: path, Headers: h, Body: bd})
	}
	check308 := func(c Chunk, resp *Resp) string {
		if resp.Panic != "" {
			return panicMsg(resp.Panic)
		}
		if c.No308 {
			if resp.Status != 200 || resp.Header.Get("X-Http-Status-Code-Override") != "308" {
				return fmt.Sprintf("incomplete chunk with X-Guploader-No-308: got HTTP %d override %q", resp.Status, resp.Header.Get("X-Http-Status-Code-Override"))
			}
		} else if resp.Status != 308 {
			return fmt.Sprintf("incomplete chunk: want 308, got HTTP %d %s", resp.Status, clip(resp.Body))
		}
		if recv > 0 {
			if got, want := resp.Header.Get("Range"), fmt.Sprintf("bytes=0-%d", recv-1); got != want {
				return fmt.Sprintf("Range header after %d received bytes is %q, want %q", recv, got, want)
			}
		}
		return ""
	}
	for _, c := range op.Chunks {
		switch c.K {
		case "next":
			k := c.N
			if k > N-recv {
				k = N - recv
			}
			if k <= 0 {
				continue
			}
			resp := send(c, fmt.Sprintf("bytes %d-%d/*", recv, recv+k-1), data[recv:recv+k])
			recv += k
			if mis := check308(c, resp); mis != "" {
				return nil, mis
			}
		case "resend":
			lo := recv - c.Lo
			if lo < 0 {
				lo = 0
			}
			k := c.N
			if k > N-lo {
				k = N - lo
			}
			if k <= 0 {
				continue
			}
			resp := send(c, fmt.Sprintf("bytes %d-%d/*", lo, lo+k-1), data[lo:lo+k])
			if lo < recv {
				interesting = true
				r.label("resumable-resent-range")
				if lo+k > recv {
					r.label("resumable-partially-overlapping-range")
				}
			}
			recv = lo + k
			if mis := check308(c, resp); mis != "" {
				return nil, mis
			}
		case "query":
			resp := send(c, "bytes */*", nil)
			interesting = true
			r.label("resumable-status-query")
			if mis := check308(c, resp); mis != "" {
				return nil, mis
			}
		}
	}
	last := Chunk{K: "final"}
	for _, c := range op.Chunks {
		if c.K == "final" {
			last = c
		}
	}
	var fin *Resp
	if recv < N {
		fin = send(last, fmt.Sprintf("bytes %d-%d/%d", recv, N-1, N), data[recv:])
	} else {
		fin = send(last, fmt.Sprintf("bytes */%d", N), nil)
		r.label("resumable-zero-byte-finalisation")
	}
	if nreq >= 4 && interesting {
		r.ResumableMulti++
	}
	if op.RetryFinal && fin.Panic == "" && fin.Status == 400 && op.MD5 == "wrong" {
		// the client insists: the finalisation of a session whose bytes do not match the declared MD5 is sent again
		again := send(last, fmt.Sprintf("bytes */%d", N), nil)
		r.label("resumable-rejected-finalisation-retried")
		if again.Panic != "" {
			return again, ""
		}
		if again.Status >= 200 && again.Status < 300 {
			return nil, fmt.Sprintf("an upload rejected for its MD5 (HTTP 400) was accepted when the same finalisation was sent again: HTTP %d %s", again.Status, clip(again.Body))
		}
	}
	return fin, ""
}

// errBody: an API-level error must be JSON with error.code == HTTP status.
func (r *Runner) errBody(resp *Resp) string {
	if resp.Status == 304 {
		return "" // no body expected
	}
	var je JErr
	if err := json.Unmarshal(resp.Body, &je); err != nil || je.Error.Code != resp.Status {
		return fmt.Sprintf("error response for HTTP %d is not a JSON error envelope with that code: %s", resp.Status, clip(resp.Body))
	}
	return ""
}

func clip(b []byte) string {
	s := string(b)
	if len(s) > 300 {
		s = s[:300] + "…"
	}
	return strings.ReplaceAll(s, "\n", " ")
}

// ---------------------------------------------------------------- reads

func mediaPath(form, b, n string, rawSlash bool) string {
	esc := EscName(n)
	if rawSlash {
		esc = strings.ReplaceAll(esc, "%2F", "/")
	}
	switch form {
	case "download":
		return "/download/storage/v1/b/" + url.PathEscape(b) + "/o/" + esc + "?alt=media"
	case "public":
		return "/" + url.PathEscape(b) + "/" + strings.ReplaceAll(EscName(n), "%2F", "/")
	}
	return "/storage/v1/b/" + url.PathEscape(b) + "/o/" + esc + "?alt=media"
}

func (r *Runner) checkMedia(form, b, n string, rawSlash bool) string {
	resp := r.E.Do(&Req{Method: "GET", Path: mediaPath(form, b, n, rawSlash)})
	if resp.Panic != "" {
		return panicMsg(resp.Panic)
	}
	o := r.M.Get(b, n)
	where := fmt.Sprintf("media GET (%s form) of %s/%s", form, b, n)
	if o == nil {
		if resp.Status != 404 {
			return fmt.Sprintf("%s: object does not exist, want 404, got HTTP %d", where, resp.Status)
		}
		return ""
	}
	if resp.Status != 200 {
		return fmt.Sprintf("%s: HTTP %d %s", where, resp.Status, clip(resp.Body))
	}
	if !bytes.Equal(resp.Body, o.Data) {
		return fmt.Sprintf("%s: body differs: got %d bytes (md5 %x), want %d bytes (md5 %x)", where, len(resp.Body), md5.Sum(resp.Body), len(o.Data), md5.Sum(o.Data))
	}
	if g := resp.Header.Get("X-Goog-Generation"); g != strconv.FormatInt(o.Gen, 10) {
		return fmt.Sprintf("%s: x-goog-generation %q, want %d", where, g, o.Gen)
	}
	if g := resp.Header.Get("X-Goog-Metageneration"); g != strconv.FormatInt(o.Metagen, 10) {
		return fmt.Sprintf("%s: x-goog-metageneration %q, want %d", where, g, o.Metagen)
	}
	if o.CTSet && resp.Header.Get("Content-Type") != o.CT {
		return fmt.Sprintf("%s: Content-Type %q, want %q", where, resp.Header.Get("Content-Type"), o.CT)
	}
	return ""
}

func (r *Runner) checkMeta(b, n string) string {
	resp := r.E.Do(&Req{Method: "GET", Path: ObjPath(b, n)})
	if resp.Panic != "" {
		return panicMsg(resp.Panic)
	}
	o := r.M.Get(b, n)
	where := fmt.Sprintf("metadata GET of %s/%s", b, n)
	if o == nil {
		if resp.Status != 404 {
			return fmt.Sprintf("%s: object does not exist, want 404, got HTTP %d", where, resp.Status)
		}
		return r.errBody(resp)
	}
	if resp.Status != 200 {
		return fmt.Sprintf("%s: HTTP %d %s", where, resp.Status, clip(resp.Body))
	}
	j, err := ParseObj(resp.Body)
	if err != nil {
		return fmt.Sprintf("%s: not JSON: %v", where, err)
	}
	return r.matchObj(j, b, n, o, where)
}

func (r *Runner) get(op *Op) string {
	r.label("get-form=" + op.Form)
	return r.checkMedia(op.Form, op.Bucket, op.Name, op.RawSlash)
}

func (r *Runner) getmeta(op *Op) string { return r.checkMeta(op.Bucket, op.Name) }

var forms = []string{"json", "download", "public"}

// VerifyAll re-reads every object (metadata + media), every deleted name and
// every bucket listing and compares them with the model.
func (r *Runner) VerifyAll() string {
	var bs []string
	for b := range r.Buckets {
		bs = append(bs, b)
	}
	sortStrings(bs)
	for _, b := range bs {
		for _, n := range r.M.Names(b) {
			if mis := r.checkMeta(b, n); mis != "" {
				return mis
			}
			r.formRot++
			if mis := r.checkMedia(forms[r.formRot%3], b, n, false); mis != "" {
				return mis
			}
		}
		if mis := r.checkListing(b); mis != "" {
			return mis
		}
	}
	var dk []string
	for k := range r.Deleted {
		dk = append(dk, k)
	}
	sortStrings(dk)
	for _, k := range dk {
		i := strings.Index(k, "/")
		b, n := k[:i], k[i+1:]
		if r.M.Get(b, n) != nil || (r.FileNames && r.DirConflict(b, n)) {
			continue
		}
		if mis := r.checkMeta(b, n); mis != "" {
			return mis
		}
		r.formRot++
		if mis := r.checkMedia(forms[r.formRot%3], b, n, false); mis != "" {
			return mis
		}
	}
	return ""
}

// ListAll follows page tokens until the end.
func (r *Runner) ListAll(b string, params url.Values) (items []JObj, prefixes []string, pages int, mis string) {
	token := ""
	for {
		qv := condQuery(params, nil)
		if token != "" {
			qv.Set("pageToken", token)
		}
		resp := r.E.Do(&Req{Method: "GET", Path: "/storage/v1/b/" + url.PathEscape(b) + "/o" + q(qv)})
		if resp.Panic != "" {
			return nil, nil, pages, panicMsg(resp.Panic)
		}
		if resp.Status != 200 {
			return nil, nil, pages, fmt.Sprintf("listing of %s: HTTP %d %s", b, resp.Status, clip(resp.Body))
		}
		var l JList
		if err := json.Unmarshal(resp.Body, &l); err != nil {
			return nil, nil, pages, fmt.Sprintf("listing of %s: not JSON: %v", b, err)
		}
		pages++
		items = append(items, l.Items...)
		prefixes = append(prefixes, l.Prefixes...)
		if l.NextPageToken == "" {
			return
		}
		if pages > 10000 {
			return nil, nil, pages, "listing does not terminate (page token loop)"
		}
		token = l.NextPageToken
	}
}

func (r *Runner) checkListing(b string) string {
	items, _, _, mis := r.ListAll(b, url.Values{})
	if mis != "" {
		return mis
	}
	want := r.M.Names(b)
	var got []string
	for i := range items {
		got = append(got, items[i].Name)
	}
	if r.SkipList {
		// set comparison only
		gs := append([]string{}, got...)
		sortStrings(gs)
		got = gs
	}
	if strings.Join(got, "\x00") != strings.Join(want, "\x00") {
		return fmt.Sprintf("listing of bucket %s: got %q, want %q", b, got, want)
	}
	for i := range items {
		if mis := r.matchObj(&items[i], b, items[i].Name, r.M.Get(b, items[i].Name), "listing item "+items[i].Name); mis != "" {
			return mis
		}
	}
	return ""
}

func sortStrings(s []string) {
	for i := 1; i < len(s); i++ {
		for j := i; j > 0 && s[j] < s[j-1]; j-- {
			s[j], s[j-1] = s[j-1], s[j]
		}
	}
}

// ---------------------------------------------------------------- patch / delete

func (r *Runner) patch(op *Op) string {
	b, n := op.Bucket, op.Name
	ce := r.M.evalConds(op.Conds, b, n)
	body := map[string]interface{}{}
	for k, v := range op.Set {
		body[k] = v
	}
	if len(op.MetaSet) > 0 {
		body["metadata"] = op.MetaSet
	}
	for k, v := range op.RO {
		if v == "@cond" {
			// echo the value of the request's own precondition in the body (a client sending back the resource it
			// read): the condition must still be judged against the stored object
			v = "5"
			qk := map[string][]string{"generation": {"ifGenerationMatch", "ifGenerationNotMatch"}, "metageneration": {"ifMetagenerationMatch", "ifMetagenerationNotMatch"}}[k]
			for _, name := range qk {
				if x := ce.Query.Get(name); x != "" {
					v = x
					r.label("patch-body-echoes-condition-value")
					break
				}
			}
		}
		body[k] = v
	}
	raw, _ := json.Marshal(body)
	if op.BadBody != "" {
		raw = []byte(op.BadBody)
	}
	resp := r.E.Do(&Req{Method: "PATCH", Path: ObjPath(b, n) + q(ce.Query), Headers: map[string]string{"Content-Type": "application/json"}, Body: BS(raw)})
	if resp.Panic != "" {
		return panicMsg(resp.Panic)
	}
	cur := r.M.Get(b, n)
	fail := func(ok func(int) bool, what string) string {
		if !ok(resp.Status) {
			return fmt.Sprintf("%s: got HTTP %d %s", what, resp.Status, clip(resp.Body))
		}
		r.Failed++
		return r.errBody(resp)
	}
	switch {
	case ce.Bad:
		return fail(func(s int) bool { return s == 400 }, "unparsable precondition must give 400")
	case cur == nil:
		r.Deleted[hk(b, n)] = true
		return fail(func(s int) bool { return s == 404 || (ce.Fails() && (s == 412 || (s == 304 && ce.OK304))) }, "patch of a missing object")
	case ce.Fails():
		r.label("precondition-failed")
		// with a malformed body as well, 400 is an equally valid answer (the order of the two checks is not specified)
		return fail(func(s int) bool {
			return (s == 412 && ce.OK412) || (s == 304 && ce.OK304) || (s == 400 && op.BadBody != "")
		}, fmt.Sprintf("failed precondition (412 ok=%v, 304 ok=%v)", ce.OK412, ce.OK304))
	case op.BadBody != "":
		return fail(func(s int) bool { return s == 400 }, "malformed patch body must give 400")
	}
	if resp.Status != 200 {
		return fmt.Sprintf("valid patch rejected: HTTP %d %s", resp.Status, clip(resp.Body))
	}
	no := cur.clone()
	no.Metagen = cur.Metagen + 1
	for k, v := range op.Set {
		if k == "contentType" {
			no.CT, no.CTSet = v, true
		} else {
			no.Fields[k] = v
		}
	}
	for k, v := range op.MetaSet {
		no.Meta[k] = v
	}
	r.M.put(b, n, no)
	r.Patches++
	r.lastWrite = ""
	if len(op.RO) > 0 {
		r.label("patch-tries-read-only-fields")
	}
	j, err := ParseObj(resp.Body)
	if err != nil {
		return fmt.Sprintf("patch response not JSON: %v", err)
	}
	return r.matchObj(j, b, n, no, "patch response")
}

func (r *Runner) delete(op *Op) string {
	b, n := op.Bucket, op.Name
	ce := r.M.evalConds(op.Conds, b, n)
	resp := r.E.Do(&Req{Method: "DELETE", Path: ObjPath(b, n) + q(ce.Query)})
	if resp.Panic != "" {
		return panicMsg(resp.Panic)
	}
	cur := r.M.Get(b, n)
	fail := func(ok func(int) bool, what string) string {
		if !ok(resp.Status) {
			return fmt.Sprintf("%s: got HTTP %d %s", what, resp.Status, clip(resp.Body))
		}
		r.Failed++
		return r.errBody(resp)
	}
	r.Deleted[hk(b, n)] = true
	switch {
	case ce.Bad:
		return fail(func(s int) bool { return s == 400 }, "unparsable precondition must give 400")
	case cur == nil:
		return fail(func(s int) bool { return s == 404 || (ce.Fails() && (s == 412 || (s == 304 && ce.OK304))) }, "delete of a missing object")
	case ce.Fails():
		r.label("precondition-failed")
		return fail(func(s int) bool { return (s == 412 && ce.OK412) || (s == 304 && ce.OK304) }, fmt.Sprintf("failed precondition (412 ok=%v, 304 ok=%v)", ce.OK412, ce.OK304))
	}
	if resp.Status != 204 && resp.Status != 200 {
		return fmt.Sprintf("valid delete rejected: HTTP %d %s", resp.Status, clip(resp.Body))
	}
	delete(r.M.Buckets[b], n)
	r.Deletes++
	r.lastWrite = ""
	return ""
}

// probe sends a request on a name that is not an object but a '/'-prefix of
// object names (a directory of the file store). What such a request answers is
// not stated by any property, so only a crash is reported here; the point is
// the comparison of every OTHER object with the model that follows the step.
func (r *Runner) probe(op *Op) string {
	if r.M.Get(op.Bucket, op.Name) != nil {
		return "" // the name is an object in this history: not a probe
	}
	req := &Req{Method: "GET", Path: ObjPath(op.Bucket, op.Name)}
	switch op.Form {
	case "delete":
		req.Method = "DELETE"
	case "media":
		req.Path += "?alt=media"
	case "patch":
		req.Method = "PATCH"
		req.Body = BS(`{"contentType":"x/probe"}`)
		req.Headers = map[string]string{"Content-Type": "application/json"}
	}
	resp := r.E.Do(req)
	if resp.Panic != "" {
		return panicMsg(resp.Panic)
	}
	r.label("probe-prefix-name:" + op.Form)
	r.Probes++
	return ""
}

// ---------------------------------------------------------------- compose / copy

func (r *Runner) compose(op *Op) string {
	b, dst := op.Bucket, op.Name
	ce := r.M.evalConds(op.Conds, b, dst)
	type pre struct {
		IfGenerationMatch string `json:"ifGenerationMatch,omitempty"`
	}
	type so struct {
		Name string `json:"name"`
		Pre  *pre   `json:"objectPreconditions,omitempty"`
	}
	req := map[string]interface{}{}
	var sos []so
	missing, srcCondFail := false, false
	var data []byte
	for _, s := range op.Srcs {
		o := r.M.Get(b, s.Name)
		x := so{Name: s.Name}
		if s.GM.K != "" {
			se := r.M.evalConds(Conds{GM: s.GM}, b, s.Name)
			v := se.Query.Get("ifGenerationMatch")
			x.Pre = &pre{IfGenerationMatch: v}
			if o != nil && v != "0" && v != strconv.FormatInt(o.Gen, 10) {
				srcCondFail = true
			}
			if o != nil && v == "0" {
				// 0 in the body means "no precondition" for the emulator's JSON decoding; the API leaves it open
				srcCondFail = false
			}
		}
		if o == nil {
			missing = true
		} else {
			data = append(data, o.Data...)
		}
		sos = append(sos, x)
	}
	req["sourceObjects"] = sos
	d := map[string]interface{}{}
	if op.CT != "" {
		d["contentType"] = op.CT
	}
	if len(op.Meta) > 0 {
		d["metadata"] = op.Meta
	}
	req["destination"] = d
	raw, _ := json.Marshal(req)
	if op.BadBody != "" {
		raw = []byte(op.BadBody)
	}
	resp := r.E.Do(&Req{Method: "POST", Path: ObjPath(b, dst) + "/compose" + q(ce.Query), Headers: map[string]string{"Content-Type": "application/json"}, Body: BS(raw)})
	if resp.Panic != "" {
		return panicMsg(resp.Panic)
	}
	var okStatus []int
	if ce.Bad {
		okStatus = append(okStatus, 400)
	}
	if op.BadBody != "" {
		okStatus = append(okStatus, 400)
	}
	if len(op.Srcs) > 32 {
		okStatus = append(okStatus, 400)
	}
	if missing {
		okStatus = append(okStatus, 404)
	}
	if srcCondFail {
		okStatus = append(okStatus, 412)
	}
	if ce.Fails() && !ce.Bad {
		if ce.OK412 {
			okStatus = append(okStatus, 412)
		}
		if ce.OK304 {
			okStatus = append(okStatus, 304)
		}
	}
	if len(op.Srcs) == 0 || ce.Unspecified {
		// unspecified: rejected or an empty object / either outcome
		if resp.Status != 200 {
			if resp.Status < 400 && resp.Status != 304 || resp.Status >= 500 {
				return fmt.Sprintf("compose (unspecified case): HTTP %d %s", resp.Status, clip(resp.Body))
			}
			r.Failed++
			return ""
		}
		if len(okStatus) > 0 {
			return fmt.Sprintf("compose that must fail (%v) returned 200", okStatus)
		}
	} else if len(okStatus) > 0 {
		for _, s := range okStatus {
			if resp.Status == s {
				r.Failed++
				r.label(fmt.Sprintf("compose-rejected-%d", s))
				return r.errBody(resp)
			}
		}
		return fmt.Sprintf("compose must fail with one of %v, got HTTP %d %s", okStatus, resp.Status, clip(resp.Body))
	}
	if resp.Status != 200 {
		return fmt.Sprintf("valid compose rejected: HTTP %d %s", resp.Status, clip(resp.Body))
	}
	obj := &MObj{Data: data, CT: op.CT, CTSet: op.CT != "", Meta: map[string]string{}, Fields: map[string]string{}, Metagen: 1, Composite: true}
	for k, v := range op.Meta {
		obj.Meta[k] = v
	}
	for _, s := range op.Srcs {
		if s.Name == dst {
			r.label("compose-destination-among-sources")
		}
	}
	r.label("compose-ok")
	return r.contentWritten(b, dst, obj, resp, resp.Body, false)
}

func (r *Runner) copy(op *Op) string {
	sb, sn, db, dn := op.Bucket, op.Name, op.DstBucket, op.DstName
	path := ObjPath(sb, sn) + "/rewriteTo/b/" + url.PathEscape(db) + "/o/" + EscName(dn)
	resp := r.E.Do(&Req{Method: "POST", Path: path, Headers: map[string]string{"Content-Type": "application/json"}, Body: "{}"})
	if resp.Panic != "" {
		return panicMsg(resp.Panic)
	}
	src := r.M.Get(sb, sn)
	if src == nil {
		if resp.Status != 404 {
			return fmt.Sprintf("copy from a missing source: want 404, got HTTP %d %s", resp.Status, clip(resp.Body))
		}
		r.Failed++
		r.Deleted[hk(db, dn)] = r.Deleted[hk(db, dn)] || r.M.Get(db, dn) == nil
		return r.errBody(resp)
	}
	if resp.Status != 200 {
		return fmt.Sprintf("valid copy rejected: HTTP %d %s", resp.Status, clip(resp.Body))
	}
	var rr struct {
		Kind                string          `json:"kind"`
		TotalBytesRewritten string          `json:"totalBytesRewritten"`
		ObjectSize          string          `json:"objectSize"`
		Done                bool            `json:"done"`
		Resource            json.RawMessage `json:"resource"`
	}
	if err := json.Unmarshal(resp.Body, &rr); err != nil {
		return fmt.Sprintf("rewrite response not JSON: %v", err)
	}
	sz := strconv.Itoa(len(src.Data))
	zero := func(x string) string {
		if x == "" {
			return "0"
		}
		return x
	}
	if !rr.Done || zero(rr.TotalBytesRewritten) != sz || zero(rr.ObjectSize) != sz {
		return fmt.Sprintf("rewrite response done=%v totalBytesRewritten=%q objectSize=%q, want done, %s, %s", rr.Done, rr.TotalBytesRewritten, rr.ObjectSize, sz, sz)
	}
	obj := src.clone()
	obj.Metagen = 1
	if sb != db {
		r.label("copy-cross-bucket")
	}
	if r.M.Get(db, dn) != nil {
		r.label("copy-onto-existing")
	}
	r.label("copy-ok")
	return r.contentWritten(db, dn, obj, resp, rr.Resource, false)
}

// list: a listing with prefix / delimiter / page size, followed through its page tokens.
func (r *Runner) list(op *Op) string {
	max := 0
	if op.Max != "" {
		max, _ = strconv.Atoi(op.Max)
	}
	if !r.Buckets[op.Bucket] {
		return "" // listing a bucket that was never created is judged by C11 / C20
	}
	st, mis := CheckListing(r.E, op.Bucket, r.M.Names(op.Bucket), ListSpec{Prefix: op.Prefix, Delim: op.Delim, Max: max}, nil)
	if st.Pages >= 2 {
		r.label("list-multi-page")
	}
	if st.Collapsed {
		r.label("list-delimiter-collapsed")
	}
	r.label("list")
	return mis
}

// ---------------------------------------------------------------- file store specials

func (r *Runner) dropSidecar(op *Op) string {
	if r.E.StoreKind != "file" {
		return ""
	}
	o := r.M.Get(op.Bucket, op.Name)
	if o == nil {
		return ""
	}
	p := filepath.Join(r.E.Dir, op.Bucket, op.Name) + ".emumeta"
	if err := os.Remove(p); err != nil {
		return ""
	}
	// metadata falls back to defaults; content, name, size, generation stay
	o.CT, o.CTSet = "", false
	o.Meta = map[string]string{}
	o.Fields = map[string]string{}
	o.Metagen = 0
	o.Composite = true // md5 unknown
	r.label("sidecar-removed")
	return ""
}
